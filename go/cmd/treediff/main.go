// treediff — correspondence harness for topic.Tree (properties C04, C05).
package main

import (
	"flag"
	"fmt"
	"os"
	"sort"
	"strings"

	"github.com/256dpi/gomqtt/topic"

	"verifharness/lib/gen"
	"verifharness/lib/out"
	"verifharness/lib/wire"
)

var w *out.W

func showList(vs []interface{}, sorted bool) string {
	var is []int
	for _, v := range vs {
		is = append(is, v.(int))
	}
	if sorted {
		sort.Ints(is)
	}
	var ss []string
	for _, i := range is {
		ss = append(ss, fmt.Sprint(i))
	}
	return "[" + strings.Join(ss, ",") + "]"
}

// T wraps the real tree, records ops, and checks snapshot stability of everything returned.
type T struct {
	tr    *topic.Tree
	prop  string
	trace []string
	snaps []snap
}

type snap struct {
	at   string
	live []interface{}
	copy []interface{}
}

func newT(prop string) *T { return &T{tr: topic.NewStandardTree(), prop: prop} }

func (t *T) op(line, res string) {
	t.trace = append(t.trace, line)
	w.Op(line, res)
}

func (t *T) keep(at string, vs []interface{}) {
	if len(vs) == 0 {
		return
	}
	t.snaps = append(t.snaps, snap{at, vs, append([]interface{}{}, vs...)})
}

func (t *T) checkSnaps() {
	for _, s := range t.snaps {
		for i := range s.copy {
			if s.live[i] != s.copy[i] {
				w.Monitor("C05", "snapshot-altered", fmt.Sprintf("result of %q changed from %v to %v by a later operation", s.at, s.copy, s.live), append([]string{}, t.trace...))
				t.snaps = nil
				return
			}
		}
	}
}

func (t *T) mut(kind, tp string, v int) {
	switch kind {
	case "add":
		t.tr.Add(tp, v)
		t.op(fmt.Sprintf("tree add %s %d", wire.HxS(tp), v), "ok")
	case "set":
		t.tr.Set(tp, v)
		t.op(fmt.Sprintf("tree set %s %d", wire.HxS(tp), v), "ok")
	case "remove":
		t.tr.Remove(tp, v)
		t.op(fmt.Sprintf("tree remove %s %d", wire.HxS(tp), v), "ok")
	case "empty":
		t.tr.Empty(tp)
		t.op("tree empty "+wire.HxS(tp), "ok")
	case "clear":
		t.tr.Clear(v)
		t.op(fmt.Sprintf("tree clear %d", v), "ok")
	case "reset":
		t.tr.Reset()
		t.op("tree reset", "ok")
	}
	w.Count("op/" + kind)
	t.checkSnaps()
}

func first(v interface{}) string {
	if v == nil {
		return "nil"
	}
	return fmt.Sprint(v.(int))
}

func (t *T) qGet(tp string) {
	vs := t.tr.Get(tp)
	t.keep("get "+tp, vs)
	t.op("tree get "+wire.HxS(tp), showList(vs, false))
	w.Op("tree specget "+wire.HxS(tp), showList(vs, true))
}

func (t *T) qMatch(name string) {
	vs := t.tr.Match(name)
	t.keep("match "+name, vs)
	res := showList(vs, true)
	t.op("tree match "+wire.HxS(name), res)
	w.Op("tree specmatch "+wire.HxS(name), res)
	f := t.tr.MatchFirst(name)
	w.Op("tree matchfirst "+wire.HxS(name), first(f))
	if (f == nil) != (len(vs) == 0) {
		w.Monitor(t.prop, "matchfirst-vs-match", fmt.Sprintf("MatchFirst(%q)=%v but Match=%v", name, f, vs), append([]string{}, t.trace...))
	}
	if len(vs) > 0 {
		w.Count("match/nonempty")
	} else {
		w.Count("match/empty")
	}
	dup := map[interface{}]bool{}
	for _, v := range vs {
		if dup[v] {
			w.Monitor(t.prop, "duplicate-in-result", fmt.Sprintf("Match(%q)=%v", name, vs), append([]string{}, t.trace...))
		}
		dup[v] = true
	}
}

func (t *T) qSearch(filter string) {
	vs := t.tr.Search(filter)
	t.keep("search "+filter, vs)
	res := showList(vs, true)
	t.op("tree search "+wire.HxS(filter), res)
	w.Op("tree specsearch "+wire.HxS(filter), res)
	f := t.tr.SearchFirst(filter)
	sf := "some"
	if f == nil {
		sf = "nil"
	}
	w.Op("tree searchfirst "+wire.HxS(filter), sf)
	if f != nil {
		ok := false
		for _, v := range vs {
			if v == f {
				ok = true
			}
		}
		if !ok {
			w.Monitor(t.prop, "searchfirst-not-member", fmt.Sprintf("SearchFirst(%q)=%v not in %v", filter, f, vs), append([]string{}, t.trace...))
		}
	}
	if len(vs) > 0 {
		w.Count("search/nonempty")
	} else {
		w.Count("search/empty")
	}
}

func (t *T) qAll() {
	vs := t.tr.All()
	t.keep("all", vs)
	res := showList(vs, true)
	t.op("tree all", res)
	w.Op("tree specall", res)
	c := fmt.Sprint(t.tr.Count())
	t.op("tree count", c)
	w.Op("tree speccount", c)
}

// ---------------------------------------------------------------- C04

func levelStrings(alpha []string, maxDepth int, filter bool) []string {
	var res []string
	var rec func(prefix []string)
	rec = func(prefix []string) {
		if len(prefix) > 0 {
			res = append(res, strings.Join(prefix, "/"))
		}
		if len(prefix) == maxDepth {
			return
		}
		if filter && len(prefix) > 0 && prefix[len(prefix)-1] == "#" {
			return // '#' only as the last level
		}
		for _, a := range alpha {
			rec(append(append([]string{}, prefix...), a))
		}
	}
	rec(nil)
	return res
}

func c04(r *gen.Rng, tier string, shard, nshard int) {
	depth := 3
	if tier == "thorough" {
		depth = 4
	}
	filters := levelStrings([]string{"a", "b", "", "+", "#"}, depth, true)
	names := levelStrings([]string{"a", "b", ""}, depth, false)
	w.Extra["c04_filters"] = len(filters)
	w.Extra["c04_names"] = len(names)
	w.Extra["c04_pairs_exhaustive_depth"] = depth
	// every filter alone against every name (match direction)
	for i, f := range filters {
		if i%nshard != shard {
			continue
		}
		w.Case("match filter=" + f)
		t := newT("C04")
		t.op("tree reset", "ok")
		t.mut("add", f, 1)
		w.Sample("filter " + f + " vs all names")
		for _, n := range names {
			t.qMatch(n)
			w.Distinct("m|" + f + "|" + n)
		}
	}
	// every name stored (distinct values), every filter queried (search direction)
	if shard == 0 {
		w.Case("search all names")
		t := newT("C04")
		t.op("tree reset", "ok")
		for i, n := range names {
			t.mut("add", n, i+1)
		}
		for _, f := range filters {
			t.qSearch(f)
			w.Distinct("s|" + f)
		}
	}
	// small sets of filters / names, both directions on the same contents
	sets := 300
	if tier == "thorough" {
		sets = 6000
	}
	for i := 0; i < sets/nshard; i++ {
		w.Case("set")
		t := newT("C04")
		t.op("tree reset", "ok")
		k := 1 + r.Intn(3)
		var stored []string
		for j := 0; j < k; j++ {
			f := filters[r.Intn(len(filters))]
			stored = append(stored, f)
			t.mut("add", f, j+1)
		}
		// the set was not always what it is now: entries that came and went (a level-wise prefix of a stored filter, a
		// filter below one, something unrelated; removed again, emptied, or emptied without ever having been stored)
		for j, c := 0, r.Intn(3); j < c; j++ {
			f := stored[r.Intn(len(stored))]
			switch r.Intn(4) {
			case 0:
				if ls := strings.Split(f, "/"); len(ls) > 1 {
					f = strings.Join(ls[:1+r.Intn(len(ls)-1)], "/")
				}
			case 1:
				f = filters[r.Intn(len(filters))]
			case 2:
				// a filter below a stored one (the stored one becomes an inner node with a single child for a while)
				if !strings.HasSuffix(f, "#") {
					f = f + "/" + []string{"a", "b", "+", "#", ""}[r.Intn(5)]
				}
			}
			switch r.Intn(3) {
			case 0:
				t.mut("add", f, 90+j)
				t.mut("remove", f, 90+j)
			case 1:
				t.mut("add", f, 90+j)
				t.mut("empty", f, 0)
				for q, g := range stored {
					if g == f {
						t.mut("add", g, q+1) // (Empty took the stored ones along: put them back)
					}
				}
			default:
				keep := false
				for _, g := range stored {
					keep = keep || g == f
				}
				if !keep {
					t.mut("empty", f, 0)
				}
			}
		}
		for j := 0; j < 25; j++ {
			t.qMatch(names[r.Intn(len(names))])
		}
		w.Case("set-names")
		t = newT("C04")
		t.op("tree reset", "ok")
		k = 1 + r.Intn(3)
		for j := 0; j < k; j++ {
			t.mut("add", names[r.Intn(len(names))], j+1)
		}
		for j := 0; j < 25; j++ {
			t.qSearch(filters[r.Intn(len(filters))])
		}
	}
	// longer alphabets, depth up to 12, multi-byte levels
	alpha := []string{"a", "b", "", "sensor", "ü", "日本", "x y", "$SYS", "A", "aa", "été"}
	rnd := 300
	if tier == "thorough" {
		rnd = 8000
	}
	mk := func(filter bool) string {
		d := 1 + r.Intn(12)
		var ls []string
		for j := 0; j < d; j++ {
			x := alpha[r.Intn(len(alpha))]
			if filter && r.Intn(4) == 0 {
				x = "+"
			}
			ls = append(ls, x)
		}
		if filter && r.Intn(3) == 0 {
			ls[len(ls)-1] = "#"
		}
		return strings.Join(ls, "/")
	}
	for i := 0; i < rnd/nshard; i++ {
		w.Case("random-deep")
		t := newT("C04")
		t.op("tree reset", "ok")
		var fs []string
		for j, k := 0, 1+r.Intn(4); j < k; j++ {
			f := mk(true)
			fs = append(fs, f)
			t.mut("add", f, j+1)
		}
		for j := 0; j < 10; j++ {
			// names derived from a stored filter so that matches actually happen
			f := fs[r.Intn(len(fs))]
			ls := strings.Split(f, "/")
			for q := range ls {
				if ls[q] == "+" {
					ls[q] = alpha[r.Intn(len(alpha))]
				}
			}
			if ls[len(ls)-1] == "#" {
				ls = ls[:len(ls)-1]
				for q, e := 0, r.Intn(3); q < e; q++ {
					ls = append(ls, alpha[r.Intn(len(alpha))])
				}
			}
			if r.Intn(4) == 0 && len(ls) > 0 {
				ls[r.Intn(len(ls))] = alpha[r.Intn(len(alpha))]
			}
			if len(ls) == 0 {
				ls = []string{"a"}
			}
			t.qMatch(strings.Join(ls, "/"))
		}
		// and the other direction: stored names, queried by the filters
		w.Case("random-deep-search")
		t = newT("C04")
		t.op("tree reset", "ok")
		for j, k := 0, 1+r.Intn(5); j < k; j++ {
			f := fs[r.Intn(len(fs))]
			ls := strings.Split(f, "/")
			for q := range ls {
				if ls[q] == "+" || ls[q] == "#" {
					ls[q] = alpha[r.Intn(len(alpha))]
				}
			}
			t.mut("add", strings.Join(ls, "/"), j+1)
		}
		for _, f := range fs {
			t.qSearch(f)
		}
		t.qSearch(mk(true))
	}
}

// ---------------------------------------------------------------- C05

var c05Topics = []string{"a", "a/b", "a/+", "a/#", "b", "#"}
var c05Names = []string{"a", "a/b", "b", "a/b/c", "c"}

type mop struct {
	kind string
	tp   string
	v    int
}

func c05Ops() []mop {
	var ops []mop
	for _, tp := range c05Topics {
		for v := 1; v <= 2; v++ {
			ops = append(ops, mop{"add", tp, v}, mop{"set", tp, v}, mop{"remove", tp, v})
		}
		ops = append(ops, mop{"empty", tp, 0})
	}
	ops = append(ops, mop{"clear", "", 1}, mop{"clear", "", 2}, mop{"reset", "", 0})
	return ops
}

func (t *T) allQueries() {
	for _, tp := range c05Topics {
		t.qGet(tp)
	}
	for _, n := range c05Names {
		t.qMatch(n)
	}
	for _, f := range c05Topics {
		t.qSearch(f)
	}
	t.qAll()
}

// values are compared by identity (==), not by content: two distinct values that happen to look alike are two values
func distinctValues(prop string) {
	type v struct{ n int }
	a, b, c := &v{7}, &v{7}, &v{8}
	tr := topic.NewStandardTree()
	tr.Add("a/b", a)
	tr.Add("a/b", b)
	tr.Add("a/+", c)
	tr.Add("a/#", a)
	check := func(what string, got []interface{}, want int) {
		if len(got) != want {
			w.Monitor(prop, "distinct-values-merged", fmt.Sprintf("%s returned %d values, expected %d: two distinct pointer values with equal contents are different values", what, len(got), want), []string{"Add(a/b,&{7}) Add(a/b,&{7}') Add(a/+,&{8}) Add(a/#,&{7})", what})
		}
	}
	check("Get(a/b)", tr.Get("a/b"), 2)
	check("Match(a/b)", tr.Match("a/b"), 3)
	check("Search(a/#)", tr.Search("a/#"), 3)
	check("All()", tr.All(), 3)
	tr.Remove("a/b", b)
	check("Get(a/b) after Remove of the second", tr.Get("a/b"), 1)
	if g := tr.Get("a/b"); len(g) == 1 && g[0] != interface{}(a) {
		w.Monitor(prop, "distinct-values-merged", "Remove(a/b, second) removed the first value", nil)
	}
	w.Count("distinct-values")
}

func c05(r *gen.Rng, tier string, shard, nshard int) {
	distinctValues("C05")
	ops := c05Ops()
	depth := 2
	if tier == "thorough" {
		depth = 3
	}
	w.Extra["c05_alphabet"] = len(ops)
	w.Extra["c05_exhaustive_depth"] = depth
	idx := 0
	var rec func(seq []mop)
	rec = func(seq []mop) {
		if len(seq) == depth {
			idx++
			if idx%nshard != shard {
				return
			}
			w.Case("exhaustive")
			t := newT("C05")
			t.op("tree reset", "ok")
			key := ""
			for i, o := range seq {
				t.mut(o.kind, o.tp, o.v)
				key += fmt.Sprintf("%s:%s:%d;", o.kind, o.tp, o.v)
				if i == len(seq)-1 || tier == "thorough" {
					t.allQueries()
				}
			}
			w.Distinct(key)
			return
		}
		for _, o := range ops {
			rec(append(append([]mop{}, seq...), o))
		}
	}
	rec(nil)
	// random long histories, queries after every op
	n, maxLen := 40, 120
	if tier == "thorough" {
		n, maxLen = 800, 400
	}
	topics := append(append([]string{}, c05Topics...), "", "/", "a//b", "a/b/c/d", "+/+", "+/#", "a/b/#")
	for i := 0; i < n/nshard+1; i++ {
		w.Case("random-history")
		t := newT("C05")
		t.op("tree reset", "ok")
		l := 1 + r.Intn(maxLen)
		w.Sample(fmt.Sprintf("random history of %d ops over %d topics x 4 values, all queries after each op", l, len(topics)))
		for j := 0; j < l; j++ {
			kinds := []string{"add", "add", "add", "set", "remove", "remove", "empty", "clear", "reset"}
			k := kinds[r.Intn(len(kinds))]
			if k == "reset" && r.Intn(10) != 0 {
				k = "add"
			}
			t.mut(k, topics[r.Intn(len(topics))], 1+r.Intn(4))
			if r.Intn(3) == 0 {
				tp := topics[r.Intn(len(topics))]
				t.qGet(tp)
				t.qMatch(strings.ReplaceAll(strings.ReplaceAll(tp, "+", "x"), "#", "y"))
				t.qSearch(tp)
			}
			if r.Intn(6) == 0 {
				t.qAll()
			}
		}
		t.allQueries()
		// history independence: rebuild the same contents in a fresh tree, compare every answer
		fresh := topic.NewStandardTree()
		for _, tp := range topics {
			for _, v := range t.tr.Get(tp) {
				fresh.Add(tp, v)
			}
		}
		for _, tp := range topics {
			a, b := showList(t.tr.Match(tp), true), showList(fresh.Match(tp), true)
			c, d := showList(t.tr.Search(tp), true), showList(fresh.Search(tp), true)
			if a != b || c != d || t.tr.Count() != fresh.Count() {
				w.Monitor("C05", "history-dependent", fmt.Sprintf("topic %q: match %s vs %s, search %s vs %s", tp, a, b, c, d), append([]string{}, t.trace...))
			}
		}
		// writing into a returned slice must not reach the tree
		for _, tp := range topics {
			if vs := t.tr.Get(tp); len(vs) > 0 {
				before := showList(t.tr.Get(tp), false)
				vs[0] = 999
				if showList(t.tr.Get(tp), false) != before {
					w.Monitor("C05", "result-aliases-tree", fmt.Sprintf("writing into Get(%q) result changed the tree", tp), append([]string{}, t.trace...))
				}
			}
		}
	}
}

func main() {
	prop := flag.String("prop", "C04", "C04 or C05")
	seed := flag.Uint64("seed", 1, "seed")
	tier := flag.String("tier", "quick", "quick|thorough")
	dir := flag.String("out", "", "output directory")
	shard := flag.Int("shard", 0, "shard index")
	nshard := flag.Int("nshard", 1, "number of shards")
	only := flag.String("only", "", "conc = only the concurrent linearizability rounds (search for a failing schedule)")
	flag.IntVar(&concRounds, "rounds", 0, "number of concurrent rounds (0 = tier default)")
	flag.Parse()
	if *dir == "" {
		fmt.Fprintln(os.Stderr, "need -out")
		os.Exit(2)
	}
	w = out.New(*dir)
	r := gen.New(*seed*1000003 + uint64(*shard) + 77)
	switch *prop {
	case "C04":
		distinctValues("C04")
		c04(r, *tier, *shard, *nshard)
	case "C05":
		if *only != "conc" {
			c05(r, *tier, *shard, *nshard)
		}
		c05Concurrent(r, *tier, *shard, *nshard)
	default:
		os.Exit(2)
	}
	w.Close()
}
