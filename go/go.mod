module verifharness

go 1.21

require (
	github.com/256dpi/gomqtt v0.0.0
	github.com/gorilla/websocket v1.4.1
)

require (
	github.com/256dpi/mercury v0.2.0 // indirect
	gopkg.in/tomb.v2 v2.0.0-20161208151619-d5d1b5820637 // indirect
)

replace github.com/256dpi/gomqtt => /repo

require github.com/anishathalye/porcupine v1.3.0
