module verifharness

go 1.21

require github.com/256dpi/gomqtt v0.0.0

require github.com/256dpi/mercury v0.2.0 // indirect

replace github.com/256dpi/gomqtt => /repo

require github.com/anishathalye/porcupine v1.3.0
