// Package wire is the Go side of the canonical one-line text form of packets
// (Lean side: lean/Model/Wire.lean).
package wire

import (
	"encoding/hex"
	"fmt"
	"strconv"
	"strings"

	"github.com/256dpi/gomqtt/packet"
)

func Hx(b []byte) string { return "x" + hex.EncodeToString(b) }
func HxS(s string) string { return "x" + hex.EncodeToString([]byte(s)) }

func b2s(b bool) string {
	if b {
		return "1"
	}
	return "0"
}

func commaList(l []string) string {
	if len(l) == 0 {
		return "-"
	}
	return strings.Join(l, ",")
}

func ShowMessage(m *packet.Message) string {
	return fmt.Sprintf("%s:%s:%d:%s", HxS(m.Topic), Hx(m.Payload), m.QOS, b2s(m.Retain))
}

func ShowPacket(g packet.Generic) string {
	switch p := g.(type) {
	case *packet.Connect:
		w := "-"
		if p.Will != nil {
			w = ShowMessage(p.Will)
		}
		return fmt.Sprintf("connect %s %d %s %s %s %s %d", HxS(p.ClientID), p.KeepAlive, HxS(p.Username), HxS(p.Password), b2s(p.CleanSession), w, p.Version)
	case *packet.Connack:
		return fmt.Sprintf("connack %s %d", b2s(p.SessionPresent), p.ReturnCode)
	case *packet.Publish:
		return fmt.Sprintf("publish %s %s %d", ShowMessage(&p.Message), b2s(p.Dup), p.ID)
	case *packet.Puback:
		return fmt.Sprintf("puback %d", p.ID)
	case *packet.Pubrec:
		return fmt.Sprintf("pubrec %d", p.ID)
	case *packet.Pubrel:
		return fmt.Sprintf("pubrel %d", p.ID)
	case *packet.Pubcomp:
		return fmt.Sprintf("pubcomp %d", p.ID)
	case *packet.Unsuback:
		return fmt.Sprintf("unsuback %d", p.ID)
	case *packet.Subscribe:
		var l []string
		for _, s := range p.Subscriptions {
			l = append(l, fmt.Sprintf("%s:%d", HxS(s.Topic), s.QOS))
		}
		return fmt.Sprintf("subscribe %d %s", p.ID, commaList(l))
	case *packet.Suback:
		var l []string
		for _, c := range p.ReturnCodes {
			l = append(l, strconv.Itoa(int(c)))
		}
		return fmt.Sprintf("suback %d %s", p.ID, commaList(l))
	case *packet.Unsubscribe:
		var l []string
		for _, t := range p.Topics {
			l = append(l, HxS(t))
		}
		return fmt.Sprintf("unsubscribe %d %s", p.ID, commaList(l))
	case *packet.Pingreq:
		return "pingreq"
	case *packet.Pingresp:
		return "pingresp"
	case *packet.Disconnect:
		return "disconnect"
	}
	return "unknown"
}

func TypeName(t packet.Type) string { return strings.ToLower(t.String()) }

func unhx(s string) ([]byte, error) {
	if !strings.HasPrefix(s, "x") {
		return nil, fmt.Errorf("bad hex %q", s)
	}
	return hex.DecodeString(s[1:])
}

func parseMessage(s string) (*packet.Message, error) {
	f := strings.Split(s, ":")
	if len(f) != 4 {
		return nil, fmt.Errorf("bad message %q", s)
	}
	t, e1 := unhx(f[0])
	p, e2 := unhx(f[1])
	q, e3 := strconv.Atoi(f[2])
	if e1 != nil || e2 != nil || e3 != nil {
		return nil, fmt.Errorf("bad message %q", s)
	}
	if len(p) == 0 {
		p = nil
	}
	return &packet.Message{Topic: string(t), Payload: p, QOS: packet.QOS(q), Retain: f[3] == "1"}, nil
}

// ParsePacket parses the text form (used for replays and the corpus).
func ParsePacket(toks []string) (packet.Generic, error) {
	bad := fmt.Errorf("bad packet %v", toks)
	if len(toks) == 0 {
		return nil, bad
	}
	u16 := func(s string) packet.ID { n, _ := strconv.Atoi(s); return packet.ID(n) }
	switch toks[0] {
	case "connect":
		if len(toks) != 8 {
			return nil, bad
		}
		c, _ := unhx(toks[1])
		ka, _ := strconv.Atoi(toks[2])
		u, _ := unhx(toks[3])
		p, _ := unhx(toks[4])
		v, _ := strconv.Atoi(toks[7])
		pkt := &packet.Connect{ClientID: string(c), KeepAlive: uint16(ka), Username: string(u), Password: string(p), CleanSession: toks[5] == "1", Version: byte(v)}
		if toks[6] != "-" {
			m, err := parseMessage(toks[6])
			if err != nil {
				return nil, err
			}
			pkt.Will = m
		}
		return pkt, nil
	case "connack":
		if len(toks) != 3 {
			return nil, bad
		}
		c, _ := strconv.Atoi(toks[2])
		return &packet.Connack{SessionPresent: toks[1] == "1", ReturnCode: packet.ConnackCode(c)}, nil
	case "publish":
		if len(toks) != 4 {
			return nil, bad
		}
		m, err := parseMessage(toks[1])
		if err != nil {
			return nil, err
		}
		return &packet.Publish{Message: *m, Dup: toks[2] == "1", ID: u16(toks[3])}, nil
	case "puback":
		return &packet.Puback{ID: u16(toks[1])}, nil
	case "pubrec":
		return &packet.Pubrec{ID: u16(toks[1])}, nil
	case "pubrel":
		return &packet.Pubrel{ID: u16(toks[1])}, nil
	case "pubcomp":
		return &packet.Pubcomp{ID: u16(toks[1])}, nil
	case "unsuback":
		return &packet.Unsuback{ID: u16(toks[1])}, nil
	case "subscribe":
		pkt := &packet.Subscribe{ID: u16(toks[1])}
		if toks[2] != "-" {
			for _, s := range strings.Split(toks[2], ",") {
				f := strings.Split(s, ":")
				t, _ := unhx(f[0])
				q, _ := strconv.Atoi(f[1])
				pkt.Subscriptions = append(pkt.Subscriptions, packet.Subscription{Topic: string(t), QOS: packet.QOS(q)})
			}
		}
		return pkt, nil
	case "suback":
		pkt := &packet.Suback{ID: u16(toks[1])}
		if toks[2] != "-" {
			for _, s := range strings.Split(toks[2], ",") {
				q, _ := strconv.Atoi(s)
				pkt.ReturnCodes = append(pkt.ReturnCodes, packet.QOS(q))
			}
		}
		return pkt, nil
	case "unsubscribe":
		pkt := &packet.Unsubscribe{ID: u16(toks[1])}
		if toks[2] != "-" {
			for _, s := range strings.Split(toks[2], ",") {
				t, _ := unhx(s)
				pkt.Topics = append(pkt.Topics, string(t))
			}
		}
		return pkt, nil
	case "pingreq":
		return &packet.Pingreq{}, nil
	case "pingresp":
		return &packet.Pingresp{}, nil
	case "disconnect":
		return &packet.Disconnect{}, nil
	}
	return nil, bad
}

// ParseType maps a lower-case type name to the packet type.
func ParseType(s string) (packet.Type, bool) {
	for _, t := range packet.Types() {
		if TypeName(t) == s {
			return t, true
		}
	}
	return 0, false
}
