// Package out writes what every harness produces for the check driver:
//   ops.txt     one model operation per line (input of the Lean driver)
//   impl.txt    the implementation's canonical answer, line for line
//   monitor.jsonl  property-monitor hits observed on the implementation itself
//   stats.json  measured distribution of what was generated (for the evidence file)
package out

import (
	"bufio"
	"encoding/json"
	"fmt"
	"os"
	"path/filepath"
	"sort"
	"sync"
)

type W struct {
	mu       sync.Mutex
	dir      string
	ops      *bufio.Writer
	impl     *bufio.Writer
	mon      *bufio.Writer
	files    []*os.File
	NOps     int
	NCases   int
	NMon     int
	Dist     map[string]int
	distinct map[string]struct{}
	Samples  []string
	Extra    map[string]interface{}
	bytes    int64
}

// MaxBytes caps what one harness run may write (ops + impl): a change to the code under test that makes a harness loop
// must not fill the disk.  Exceeding it ends the process with exit status 97.
var MaxBytes int64 = 1 << 30

func New(dir string) *W {
	if err := os.MkdirAll(dir, 0o755); err != nil {
		panic(err)
	}
	w := &W{dir: dir, Dist: map[string]int{}, distinct: map[string]struct{}{}, Extra: map[string]interface{}{}}
	open := func(name string) *bufio.Writer {
		f, err := os.Create(filepath.Join(dir, name))
		if err != nil {
			panic(err)
		}
		w.files = append(w.files, f)
		return bufio.NewWriterSize(f, 1<<20)
	}
	w.ops, w.impl, w.mon = open("ops.txt"), open("impl.txt"), open("monitor.jsonl")
	return w
}

// Case starts a new case; the line is echoed by the model driver, so both files stay aligned.
func (w *W) Case(desc string) {
	w.mu.Lock()
	defer w.mu.Unlock()
	w.NCases++
	fmt.Fprintf(w.ops, "# case %d %s\n", w.NCases, desc)
	fmt.Fprintf(w.impl, "# case %d %s\n", w.NCases, desc)
}

// Op records one operation and the implementation's canonical answer.
func (w *W) Op(op, impl string) {
	w.mu.Lock()
	defer w.mu.Unlock()
	w.NOps++
	w.ops.WriteString(op)
	w.ops.WriteByte('\n')
	w.impl.WriteString(impl)
	w.impl.WriteByte('\n')
	w.bytes += int64(len(op) + len(impl) + 2)
	if w.bytes > MaxBytes {
		w.ops.Flush()
		w.impl.Flush()
		fmt.Fprintf(os.Stderr, "harness output exceeded %d bytes after %d operations (runaway case?): giving up\n", MaxBytes, w.NOps)
		os.Exit(97)
	}
}

// Count adds to the distribution histogram.
func (w *W) Count(key string) {
	w.mu.Lock()
	w.Dist[key]++
	w.mu.Unlock()
}

// Distinct records a canonical non-trivial case key (counted once).
func (w *W) Distinct(key string) {
	w.mu.Lock()
	w.distinct[key] = struct{}{}
	w.mu.Unlock()
}

func (w *W) Sample(s string) {
	w.mu.Lock()
	if len(w.Samples) < 12 {
		if len(s) > 400 {
			s = s[:400] + "…"
		}
		w.Samples = append(w.Samples, s)
	}
	w.mu.Unlock()
}

// Monitor records a property-monitor hit on the implementation's own behaviour.
// kind is a short stable class name (matched against known_findings.json), replay the
// concrete input / op list that reproduces it.
func (w *W) Monitor(property, kind, detail string, replay []string) {
	w.mu.Lock()
	defer w.mu.Unlock()
	w.NMon++
	b, _ := json.Marshal(map[string]interface{}{"property": property, "kind": kind, "detail": detail, "replay": replay})
	w.mon.Write(b)
	w.mon.WriteByte('\n')
}

func (w *W) Close() {
	w.mu.Lock()
	defer w.mu.Unlock()
	w.ops.Flush()
	w.impl.Flush()
	w.mon.Flush()
	for _, f := range w.files {
		f.Close()
	}
	keys := make([]string, 0, len(w.Dist))
	for k := range w.Dist {
		keys = append(keys, k)
	}
	sort.Strings(keys)
	st := map[string]interface{}{
		"ops": w.NOps, "cases": w.NCases, "monitor_hits": w.NMon,
		"distinct_nontrivial": len(w.distinct), "distribution": w.Dist, "samples": w.Samples,
	}
	for k, v := range w.Extra {
		st[k] = v
	}
	b, _ := json.MarshalIndent(st, "", " ")
	os.WriteFile(filepath.Join(w.dir, "stats.json"), b, 0o644)
}
