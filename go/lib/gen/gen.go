// Package gen holds the single PRNG every harness derives its random choices from, and the
// type-directed packet generators built from the repository's own packet structs.
package gen

import (
	"github.com/256dpi/gomqtt/packet"
)

// Rng is splitmix64; every random choice of a run derives from one seed.
type Rng struct{ s uint64 }

func New(seed uint64) *Rng { return &Rng{s: seed*0x9E3779B97F4A7C15 + 0x1234567} }

func (r *Rng) U64() uint64 {
	r.s += 0x9E3779B97F4A7C15
	z := r.s
	z = (z ^ (z >> 30)) * 0xBF58476D1CE4E5B9
	z = (z ^ (z >> 27)) * 0x94D049BB133111EB
	return z ^ (z >> 31)
}

func (r *Rng) Intn(n int) int {
	if n <= 0 {
		return 0
	}
	return int(r.U64() % uint64(n))
}

func (r *Rng) Bool() bool { return r.U64()&1 == 1 }

func (r *Rng) Pick(xs ...int) int { return xs[r.Intn(len(xs))] }

// Fork derives an independent generator (for shards / goroutines).
func (r *Rng) Fork() *Rng { return New(r.U64()) }

// Bytes returns n bytes; mostly printable so that topics look like topics, sometimes arbitrary.
func (r *Rng) Bytes(n int) []byte {
	b := make([]byte, n)
	mode := r.Intn(4)
	for i := range b {
		switch mode {
		case 0:
			b[i] = byte(r.U64())
		case 1:
			b[i] = "ab/+#\x00"[r.Intn(6)]
		default:
			b[i] = "abcdefghijklmnopqrstuvwxyz/0123456789"[r.Intn(37)]
		}
	}
	return b
}

// Len picks a field length: boundary values and small random ones.
func (r *Rng) Len() int {
	switch r.Intn(20) {
	case 0:
		return 0
	case 1:
		return 1
	case 2:
		return 2
	case 3:
		return 127
	case 4:
		return 128
	case 5:
		return 255
	case 6:
		return 256
	case 7:
		if r.Intn(40) == 0 {
			return 65535
		}
		return 1000 + r.Intn(3000)
	default:
		return 1 + r.Intn(24)
	}
}

func (r *Rng) NonEmptyLen() int {
	n := r.Len()
	if n == 0 {
		return 1
	}
	return n
}

func (r *Rng) ID() packet.ID {
	switch r.Intn(8) {
	case 0:
		return 1
	case 1:
		return 2
	case 2:
		return 255
	case 3:
		return 256
	case 4:
		return 65535
	default:
		return packet.ID(1 + r.Intn(65535))
	}
}

func (r *Rng) QOS() packet.QOS { return packet.QOS(r.Intn(3)) }

func (r *Rng) Message() packet.Message {
	m := packet.Message{Topic: string(r.Bytes(r.NonEmptyLen())), QOS: r.QOS(), Retain: r.Bool()}
	if n := r.Len(); n > 0 {
		m.Payload = r.Bytes(n)
	}
	return m
}

// Packet returns a well-formed packet of type t (what Encode followed by Decode accepts).
func (r *Rng) Packet(t packet.Type) packet.Generic {
	switch t {
	case packet.CONNECT:
		p := packet.NewConnect()
		p.ClientID = string(r.Bytes(r.Len()))
		p.KeepAlive = uint16(r.Pick(0, 1, 30, 255, 256, 65535, r.Intn(65536)))
		p.CleanSession = r.Bool()
		if len(p.ClientID) == 0 {
			p.CleanSession = true
		}
		if r.Bool() {
			p.Username = string(r.Bytes(r.NonEmptyLen()))
			if r.Bool() {
				p.Password = string(r.Bytes(r.NonEmptyLen()))
			}
		}
		if r.Bool() {
			m := r.Message()
			p.Will = &m
		}
		p.Version = byte(r.Pick(0, 3, 4, 4))
		return p
	case packet.CONNACK:
		return &packet.Connack{SessionPresent: r.Bool(), ReturnCode: packet.ConnackCode(r.Intn(6))}
	case packet.PUBLISH:
		p := &packet.Publish{Message: r.Message(), Dup: r.Bool()}
		if p.Message.QOS > 0 {
			p.ID = r.ID()
		}
		return p
	case packet.PUBACK:
		return &packet.Puback{ID: r.ID()}
	case packet.PUBREC:
		return &packet.Pubrec{ID: r.ID()}
	case packet.PUBREL:
		return &packet.Pubrel{ID: r.ID()}
	case packet.PUBCOMP:
		return &packet.Pubcomp{ID: r.ID()}
	case packet.UNSUBACK:
		return &packet.Unsuback{ID: r.ID()}
	case packet.SUBSCRIBE:
		p := &packet.Subscribe{ID: r.ID()}
		for i, n := 0, 1+r.Intn(8); i < n; i++ {
			p.Subscriptions = append(p.Subscriptions, packet.Subscription{Topic: string(r.Bytes(r.Len())), QOS: r.QOS()})
		}
		return p
	case packet.SUBACK:
		p := &packet.Suback{ID: r.ID()}
		for i, n := 0, 1+r.Intn(8); i < n; i++ {
			p.ReturnCodes = append(p.ReturnCodes, packet.QOS(r.Pick(0, 1, 2, 0x80)))
		}
		return p
	case packet.UNSUBSCRIBE:
		p := &packet.Unsubscribe{ID: r.ID()}
		for i, n := 0, 1+r.Intn(8); i < n; i++ {
			p.Topics = append(p.Topics, string(r.Bytes(r.Len())))
		}
		return p
	case packet.PINGREQ:
		return &packet.Pingreq{}
	case packet.PINGRESP:
		return &packet.Pingresp{}
	default:
		return &packet.Disconnect{}
	}
}

// PacketWithRL returns a well-formed packet of a type that can reach remaining length rl
// (PUBLISH, SUBACK, SUBSCRIBE, UNSUBSCRIBE, CONNECT for moderate sizes); ok=false if it cannot.
func (r *Rng) PacketWithRL(t packet.Type, rl int) (packet.Generic, bool) {
	switch t {
	case packet.PUBLISH:
		qos := r.QOS()
		tl := 1 + r.Intn(5)
		fixed := 2 + tl
		if qos > 0 {
			fixed += 2
		}
		if rl < fixed {
			return nil, false
		}
		p := &packet.Publish{Message: packet.Message{Topic: string(r.Bytes(tl)), QOS: qos, Retain: r.Bool()}, Dup: r.Bool()}
		if qos > 0 {
			p.ID = r.ID()
		}
		if rl > fixed {
			p.Message.Payload = r.Bytes(rl - fixed)
		}
		return p, true
	case packet.SUBACK:
		if rl < 3 {
			return nil, false
		}
		p := &packet.Suback{ID: r.ID(), ReturnCodes: make([]packet.QOS, rl-2)}
		for i := range p.ReturnCodes {
			p.ReturnCodes[i] = packet.QOS(r.Pick(0, 1, 2, 0x80))
		}
		return p, true
	case packet.SUBSCRIBE:
		// 2 + sum(3 + len)
		if rl < 5 {
			return nil, false
		}
		p := &packet.Subscribe{ID: r.ID()}
		left := rl - 2
		for left > 0 {
			if left < 3 || left == 4 || left == 5 && false {
				return nil, false
			}
			n := left - 3
			if n > 65535 {
				n = 60000
			}
			if left-3-n != 0 && left-3-n < 3 {
				n -= 3
			}
			p.Subscriptions = append(p.Subscriptions, packet.Subscription{Topic: string(r.Bytes(n)), QOS: r.QOS()})
			left -= 3 + n
		}
		return p, true
	case packet.UNSUBSCRIBE:
		if rl < 4 {
			return nil, false
		}
		p := &packet.Unsubscribe{ID: r.ID()}
		left := rl - 2
		for left > 0 {
			if left < 2 {
				return nil, false
			}
			n := left - 2
			if n > 65535 {
				n = 60000
			}
			if left-2-n != 0 && left-2-n < 2 {
				n -= 2
			}
			p.Topics = append(p.Topics, string(r.Bytes(n)))
			left -= 2 + n
		}
		return p, true
	case packet.CONNECT:
		// version 4, clean, will payload takes the slack: 10 + 2+cid + 2+wt + 2+wp
		base := 10 + 2 + 1 + 2 + 1 + 2
		if rl < base || rl-base > 65535 {
			return nil, false
		}
		p := packet.NewConnect()
		p.ClientID = "c"
		m := packet.Message{Topic: "w", QOS: r.QOS(), Retain: r.Bool()}
		if rl > base {
			m.Payload = r.Bytes(rl - base)
		}
		p.Will = &m
		return p, true
	}
	return nil, false
}

// Break returns a copy-like packet of type t violating exactly one well-formedness clause,
// and a label naming the clause.
func (r *Rng) Break(t packet.Type) (packet.Generic, string) {
	g := r.Packet(t)
	switch p := g.(type) {
	case *packet.Connect:
		switch r.Intn(8) {
		case 0:
			p.Version = byte(r.Pick(1, 2, 5, 255))
			return p, "version"
		case 1:
			p.ClientID, p.CleanSession = "", false
			return p, "cid-clean"
		case 2:
			p.Username, p.Password = "", "secret"
			return p, "pass-no-user"
		case 3:
			p.Will = &packet.Message{Topic: "", QOS: 0}
			return p, "will-topic-empty"
		case 4:
			p.Will = &packet.Message{Topic: "w", QOS: packet.QOS(r.Pick(3, 4, 0x80, 255))}
			return p, "will-qos"
		case 5:
			p.ClientID = string(r.Bytes(65536))
			return p, "cid-long"
		case 6:
			p.Will = &packet.Message{Topic: "w", Payload: r.Bytes(65536 + r.Intn(10))}
			return p, "will-payload-long"
		default:
			p.Username = string(r.Bytes(65536))
			return p, "user-long"
		}
	case *packet.Connack:
		p.ReturnCode = packet.ConnackCode(r.Pick(6, 7, 128, 255))
		return p, "code"
	case *packet.Publish:
		switch r.Intn(4) {
		case 0:
			p.Message.Topic = ""
			return p, "topic-empty"
		case 1:
			p.Message.QOS = packet.QOS(r.Pick(3, 4, 0x80, 255))
			return p, "qos"
		case 2:
			p.Message.QOS, p.ID = packet.QOS(1+r.Intn(2)), 0
			return p, "id-zero"
		default:
			p.Message.Topic = string(r.Bytes(65536))
			return p, "topic-long"
		}
	case *packet.Puback:
		p.ID = 0
		return p, "id-zero"
	case *packet.Pubrec:
		p.ID = 0
		return p, "id-zero"
	case *packet.Pubrel:
		p.ID = 0
		return p, "id-zero"
	case *packet.Pubcomp:
		p.ID = 0
		return p, "id-zero"
	case *packet.Unsuback:
		p.ID = 0
		return p, "id-zero"
	case *packet.Subscribe:
		switch r.Intn(4) {
		case 0:
			p.ID = 0
			return p, "id-zero"
		case 1:
			p.Subscriptions[r.Intn(len(p.Subscriptions))].QOS = packet.QOS(r.Pick(3, 0x80, 255))
			return p, "qos"
		case 2:
			p.Subscriptions[r.Intn(len(p.Subscriptions))].Topic = string(r.Bytes(65536))
			return p, "topic-long"
		default:
			p.Subscriptions = nil
			return p, "empty-list"
		}
	case *packet.Suback:
		switch r.Intn(3) {
		case 0:
			p.ID = 0
			return p, "id-zero"
		case 1:
			p.ReturnCodes[r.Intn(len(p.ReturnCodes))] = packet.QOS(r.Pick(3, 4, 0x7f, 0x81, 255))
			return p, "code"
		default:
			p.ReturnCodes = nil
			return p, "empty-list"
		}
	case *packet.Unsubscribe:
		switch r.Intn(3) {
		case 0:
			p.ID = 0
			return p, "id-zero"
		case 1:
			p.Topics[r.Intn(len(p.Topics))] = string(r.Bytes(65536))
			return p, "topic-long"
		default:
			p.Topics = nil
			return p, "empty-list"
		}
	}
	return g, "none"
}
