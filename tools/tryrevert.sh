#!/bin/sh
# usage: tryrevert.sh <fix-commit> <Cnn> [tier] — temporarily reverts one fix commit in /repo's working tree, runs the check, restores.
c=$1; p=$2; t=${3:-quick}
git -C /repo diff $c $c~1 | git -C /repo apply || exit 9
/verif/check $p --tier $t | tail -3
git -C /repo checkout -- . 
