#!/usr/bin/env python3
"""Regenerates /verif/MANIFEST.json from tools/manifest_src.py (kept valid at all times)."""
import json, os, sys
sys.path.insert(0, os.path.dirname(__file__))
from manifest_src import CHECKS, NOT_APPLICABLE, HOOK_COMMITS
ROOT = os.path.dirname(os.path.dirname(os.path.abspath(__file__)))
checks = []
for pid, c in CHECKS.items():
    checks.append(dict(
        property_id=pid,
        quick_cmd=f'./check {pid} --tier quick',
        thorough_cmd=f'./check {pid} --tier thorough',
        evidence_file=f'/verif/evidence/{pid}.json',
        replay_cmd_template=f'./check {pid} --replay {{path}}',
        engine='lean4-proof+correspondence',
        level_claimed=dict(category='proof', text=c['text'], design_ref=c['design_ref']),
        level_note=c['note'],
        technique=c['technique'],
    ))
m = dict(
    version=1,
    setup_cmd='./setup.sh',
    hooks=dict(guard='verif', enable='go build -tags verif (the harness module in /verif/go replaces github.com/256dpi/gomqtt by /repo)',
               baseline_off_cmd='python3 /verif/tools/baseline.py', source_commits=HOOK_COMMITS, add_only=True),
    engines=[dict(name='lean4-proof+correspondence', path='/verif/lean + /verif/go + /verif/check',
                  serves_properties=sorted(CHECKS), kind_free_text='Lean 4 theorems about a hand-written executable model; the model is tied to /repo on every run by a differential / trace-conformance correspondence check (Go harness vs compiled Lean driver)')],
    checks=checks,
    notes='See DESIGN.md. Every check: lake build + #print axioms audit of the property theorems, go build -tags verif of the harness against /repo, harness vs Lean driver line diff, property monitors on the implementation, known_findings.json.',
    not_applicable=[dict(property_id=k, reason=v) for k, v in NOT_APPLICABLE.items()],
)
json.dump(m, open(os.path.join(ROOT, 'MANIFEST.json'), 'w'), indent=1)
print('MANIFEST.json written:', len(checks), 'checks,', len(NOT_APPLICABLE), 'not applicable')
