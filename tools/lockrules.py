"""Structural facts (DESIGN.md §3.4, F-lock) each property's model ASSUMES when it treats a public method as one atomic event.
Recomputed from /repo's sources on every run by go/cmd/lockfacts; judged here.

A rule names a receiver type and says which exported methods must take which mutex (first statement, released by `defer`);
`all_exported=True` demands it of every exported method of the type except the listed ones.  Methods holding only the read lock
must not (transitively, through unexported methods of the receiver) assign to anything but local identifiers."""

RULES = {
    'C05': [dict(pkg='topic', type='Tree', all_exported=True, exempt=[])],
    'C18': [dict(pkg='session', type='IDCounter', all_exported=True, exempt=[]),
            dict(pkg='session', type='PacketStore', all_exported=True, exempt=[])],
    'C06': [dict(pkg='broker', type='MemoryBackend', methods={'Publish': 'globalMutex', 'Subscribe': 'globalMutex', 'Terminate': 'globalMutex'})],
    'C11': [dict(pkg='broker', type='MemoryBackend', methods={'Publish': 'globalMutex', 'Subscribe': 'globalMutex'})],
    'C13': [dict(pkg='broker', type='MemoryBackend', methods={'Setup': 'setupMutex', 'Terminate': 'globalMutex'})],
    'C15': [dict(pkg='broker', type='MemoryBackend', methods={'Publish': 'globalMutex'}),
            dict(pkg='session', type='PacketStore', all_exported=True, exempt=[])],
    'C09': [dict(pkg='client/future', type='Store', all_exported=True, exempt=['Await']),
            dict(pkg='client/future', type='Future', all_exported=True, exempt=['Wait']),
            dict(pkg='client', type='Client', methods={m: 'mutex' for m in ['Connect', 'PublishMessage', 'SubscribeMultiple', 'UnsubscribeMultiple', 'Disconnect', 'Close']})],
    'C17': [dict(pkg='client', type='Service', methods={m: 'mutex' for m in ['Start', 'Stop', 'PublishMessage', 'SubscribeMultiple', 'UnsubscribeMultiple']})],
    'C19': [dict(pkg='transport', type='BaseConn', methods={'Send': 'sendMutex', 'Close': 'sendMutex', 'Receive': 'receiveMutex', 'SetReadTimeout': 'receiveMutex'})],
}


def judge(pid, facts):
    """facts: list of dicts from lockfacts.  Returns (checked:list[str], failures:list[str])."""
    checked, failures = [], []
    for rule in RULES.get(pid, []):
        mine = {f['method']: f for f in facts if f['pkg'] == rule['pkg'] and f['type'] == rule['type']}
        if not mine:
            failures.append(f"type {rule['pkg']}.{rule['type']} with a mutex field no longer exists")
            continue
        if rule.get('all_exported'):
            want = {m: None for m, f in mine.items() if f['exported'] and m not in rule.get('exempt', [])}
        else:
            want = dict(rule['methods'])
        for m, mutex in sorted(want.items()):
            f = mine.get(m)
            name = f"{rule['pkg']}.{rule['type']}.{m}"
            if f is None:
                failures.append(f'{name}: method not found')
                continue
            checked.append(name + ':' + (f['lock'] or 'none'))
            if not f['lock']:
                failures.append(f"{name} ({f['pos']}) does not take the receiver's mutex as its first statement")
            elif mutex and f['mutex'] != mutex:
                failures.append(f"{name} ({f['pos']}) takes {f['mutex']} instead of {mutex}")
            elif not f['defer_unlock']:
                failures.append(f"{name} ({f['pos']}) does not release the mutex by defer in its second statement")
            elif f['lock'] == 'RLock' and f['writes_state']:
                failures.append(f"{name} ({f['pos']}) holds only the read lock but a write to shared state is reachable")
    return checked, failures
