"""Per-property configuration of the check driver (harness, arguments, spec operations)."""
PROPS = {
    'C01': dict(
        harness='codecdiff', args=['-prop', 'C01'], shards=dict(quick=4, thorough=16),
        spec_ops=['codec refenc'],
        rule='type-directed generator over the repo\'s packet structs (14 types, boundary ids/lengths, remaining lengths around every '
             'varint boundary) plus a malformed stream violating one well-formedness clause; distinct = distinct canonical packet texts',
        assumptions=['Go int modelled as unbounded Nat (all lengths ≤ 2^28)', 'pooled buffers / unsafe string cast not modelled'],
    ),
    'C02': dict(
        harness='codecdiff', args=['-prop', 'C02'], shards=dict(quick=4, thorough=16),
        spec_ops=['codec refdec'],
        rule='all 1- and 2-byte headers, sampled 3..11-byte headers over type x flags x continuation patterns x 7-bit groups, random bytes, '
             'structure-aware mutations and splices of valid encodings, each decoded raw, framed and embedded; distinct = distinct inputs '
             'that decode successfully',
        assumptions=['aliasing (decoded packet owns its data) is validated by the harness, not proved: the value model cannot express it'],
    ),
}
