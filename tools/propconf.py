"""Per-property configuration of the check driver (harness, arguments, spec operations)."""
PROPS = {
    'C01': dict(
        harness='codecdiff', args=['-prop', 'C01'], shards=dict(quick=4, thorough=16),
        spec_ops=['codec refenc'],
        rule='type-directed generator over the repo\'s packet structs (14 types, boundary ids/lengths, remaining lengths around every '
             'varint boundary) plus a malformed stream violating one well-formedness clause; distinct = distinct canonical packet texts',
        assumptions=['Go int modelled as unbounded Nat (all lengths ≤ 2^28)', 'pooled buffers / unsafe string cast not modelled'],
    ),
    'C02': dict(
        harness='codecdiff', args=['-prop', 'C02'], shards=dict(quick=4, thorough=16),
        spec_ops=['codec refdec'],
        rule='all 1- and 2-byte headers, sampled 3..11-byte headers over type x flags x continuation patterns x 7-bit groups, random bytes, '
             'structure-aware mutations and splices of valid encodings, each decoded raw, framed and embedded; distinct = distinct inputs '
             'that decode successfully',
        assumptions=['aliasing (decoded packet owns its data) is validated by the harness, not proved: the value model cannot express it'],
    ),
    'C04': dict(
        harness='treediff', args=['-prop', 'C04'], shards=dict(quick=4, thorough=16),
        spec_ops=['tree spec'],
        rule='every valid filter over levels {a,b,empty,+,#} (depth<=3 quick, 4 thorough) against every name over {a,b,empty}, both directions; '
             'random sets of 1-3 filters/names; random deep (<=12 levels) multi-byte topics; distinct = distinct (filter,name) pairs / filters queried',
        assumptions=['Go map iteration order is canonicalised by sorting result sets'],
    ),
    'C05': dict(
        harness='treediff', args=['-prop', 'C05'], shards=dict(quick=4, thorough=16), race=True, fact_search_args=['-only', 'conc', '-rounds', '40000'],
        spec_ops=['tree spec'],
        rule='exhaustive operation sequences over 6 topics x 2 values (45 ops; length 2 quick, 3 thorough) with every query after the sequence, '
             'random histories up to 120/400 ops with queries interleaved; snapshot, aliasing and history-independence monitors on the real tree; '
             'distinct = distinct exhaustive op sequences',
        assumptions=['data-race freedom and atomicity rest on the mutex (fact F-lock) and the race detector, not on the Lean model'],
    ),
    'C18': dict(
        harness='sessiondiff', args=['-prop', 'C18'], ignore_ops=['sess allord'], shards=dict(quick=4, thorough=16), race=True,
        rule='all 65536 counter states x 3 allocations; full 65535-allocation cycles from boundary start states; every store history of length 3 (quick) / 4 '
             '(thorough) over 2 directions x 3 ids x {save,save-other,lookup,delete,all,id-less save} + reset, random long histories; a Go map per direction '
             'as the property monitor; 2/4/16 concurrent allocators; distinct = distinct exhaustive histories and full cycles',
        assumptions=['concurrent callers: atomicity rests on the mutex (fact F-lock); the thorough tier runs the harness under the race detector'],
    ),
    'C06': dict(
        harness='brokertrace', syn=True, args=['-prop', 'C06'], shards=dict(quick=8, thorough=16),
        rule='random histories of connect/subscribe(1-4 filters, differing QoS)/unsubscribe/publish/ack over 1-5 clients, 8 topics x 14 filters with wildcards and overlaps, all QoS pairs; every broker output must be an enabled output of the Lean broker model; delivery monitor (independent 4.7 matcher) on the real outputs; distinct = distinct traces; plus directed backlog cases: deliveries wait in the session queue (window 1) while the subscriber unsubscribes / lowers / raises / overlaps the filter they were queued under',
        assumptions=['scripted peers at quiescence granularity inside a testing/synctest bubble (go1.26): one stimulus, then every goroutine of the broker durably blocked, then the next',
                     'not modelled: a publish blocking on the full queue of another online client, a processor blocked on an exhausted publish/subscribe token (the generators stay inside; the model answers unsupported otherwise)'],
    ),
    'C07': dict(
        harness='brokertrace', syn=True, args=['-prop', 'C07'], shards=dict(quick=8, thorough=16),
        rule='publisher scripts over {PUBLISH(id in 1..2, qos 1/2, dup), PUBREL(known/unknown id), drop+resume, failing k-th send, late/sync/released acks}; monitors: ack-after-accept, QoS 2 handed to the backend exactly once, PUBREL always answered; distinct = distinct traces',
        assumptions=['scripted peers at quiescence granularity inside a testing/synctest bubble (go1.26): one stimulus, then every goroutine of the broker durably blocked, then the next',
                     'not modelled: a publish blocking on the full queue of another online client, a processor blocked on an exhausted publish/subscribe token (the generators stay inside; the model answers unsupported otherwise)'],
    ),
    'C08': dict(
        harness='brokertrace', syn=True, args=['-prop', 'C08'], shards=dict(quick=8, thorough=16),
        rule='offline-queue scripts (queue 3/5/100, window 1-4, loss during resend) and random subscriber behaviours (ack, withhold, drop, reconnect clean/unclean, failing sends); once per run (shard 0) a packet-id wrap-around: window 2, the first delivery never acknowledged, 65535 further QoS 1 deliveries each acknowledged at once, drop, unclean resume (about 460000 model-checked lines); distinct = distinct traces; resumes cut while the CONNACK or the first retransmission is written, followed by more offline traffic',
        assumptions=['scripted peers at quiescence granularity inside a testing/synctest bubble (go1.26): one stimulus, then every goroutine of the broker durably blocked, then the next',
                     'not modelled: a publish blocking on the full queue of another online client, a processor blocked on an exhausted publish/subscribe token (the generators stay inside; the model answers unsupported otherwise)'],
    ),
    'C11': dict(
        harness='brokertrace', syn=True, args=['-prop', 'C11'], shards=dict(quick=8, thorough=16),
        rule='random histories with 60% retained publishes, empty-payload clears, retained wills, frequent subscriptions with 14 filters; distinct = distinct traces; topic names with empty levels (a/, a//b, /), the same payload re-published at another QoS, retained replays waiting in the queue while subscriptions change, more retained messages than the session queue holds',
        assumptions=['scripted peers at quiescence granularity inside a testing/synctest bubble (go1.26): one stimulus, then every goroutine of the broker durably blocked, then the next',
                     'not modelled: a publish blocking on the full queue of another online client, a processor blocked on an exhausted publish/subscribe token (the generators stay inside; the model answers unsupported otherwise)'],
    ),
    'C12': dict(
        harness='brokertrace', syn=True, args=['-prop', 'C12'], shards=dict(quick=8, thorough=16),
        rule='termination cause (DISCONNECT, drop, out-of-protocol, second CONNECT, takeover, backend close, send failure, server-only packet, rejected auth) x protocol state (before CONNECT, idle, mid inbound/outbound QoS 2, window full) x will QoS/retain x online/offline/late observers; will-count monitor; distinct = (cause,state,will flags)',
        assumptions=['scripted peers at quiescence granularity inside a testing/synctest bubble (go1.26): one stimulus, then every goroutine of the broker durably blocked, then the next',
                     'not modelled: a publish blocking on the full queue of another online client, a processor blocked on an exhausted publish/subscribe token (the generators stay inside; the model answers unsupported otherwise)'],
    ),
    'C13': dict(
        harness='brokertrace', syn=True, args=['-prop', 'C13'], shards=dict(quick=8, thorough=16),
        rule='takeover scripts: repeated CONNECTs with one client id (clean/unclean) against an old connection that is idle, mid-handshake, failing or dropped, with traffic towards the id; monitors: one live connection per id, old terminated before new CONNACK; distinct = distinct traces; the old holder may have widened its window with a spurious PUBACK (more stored deliveries than window slots); the old dequeuer may be parked between two deliveries with a backlog queued (monitors only)',
        assumptions=['scripted peers at quiescence granularity inside a testing/synctest bubble (go1.26): one stimulus, then every goroutine of the broker durably blocked, then the next',
                     'not modelled: a publish blocking on the full queue of another online client, a processor blocked on an exhausted publish/subscribe token (the generators stay inside; the model answers unsupported otherwise)'],
    ),
    'C14': dict(
        harness='brokertrace', syn=True, args=['-prop', 'C14'], shards=dict(quick=8, thorough=16),
        rule='hostile random histories (out-of-protocol packets, spurious acks, second CONNECT, drops, failing sends, wills, retained) next to ordinary traffic; monitors: terminate exactly once per setup, closed signal fires, no goroutine left (synctest bubble must drain), process crash = violation; distinct = distinct traces; directed: own-queue flood, slow subscriber that goes away, retained flood towards a silent subscriber, connect after backend shutdown, clients connecting/subscribing/publishing while the backend shuts down, 64 KiB / 3000-level topics; a real-time watchdog reports goroutines blocked for good (mutex deadlocks are invisible to synctest)',
        assumptions=['scripted peers at quiescence granularity inside a testing/synctest bubble (go1.26): one stimulus, then every goroutine of the broker durably blocked, then the next',
                     'not modelled: a publish blocking on the full queue of another online client, a processor blocked on an exhausted publish/subscribe token (the generators stay inside; the model answers unsupported otherwise)'],
    ),
    'C15': dict(
        harness='brokertrace', syn=True, args=['-prop', 'C15'], shards=dict(quick=8, thorough=16),
        also=[dict(harness='servicetrace', syn=True, args=['-prop', 'C17'], shards=dict(quick=4, thorough=8)),
              dict(harness='clienttrace', syn=True, args=['-prop', 'C10'], shards=dict(quick=4, thorough=8))],
        rule='2-5 clients publishing numbered messages at all QoS to overlapping topics, windows 1-10, drops/resumes with unacknowledged messages; order monitor per (publisher, QoS) at every receiver, resend order through the model; client-library clauses: the servicetrace (command order) and clienttrace (callback arrival order) harnesses run as well; distinct = distinct traces',
        assumptions=['scripted peers at quiescence granularity inside a testing/synctest bubble (go1.26): one stimulus, then every goroutine of the broker durably blocked, then the next',
                     'not modelled: a publish blocking on the full queue of another online client, a processor blocked on an exhausted publish/subscribe token (the generators stay inside; the model answers unsupported otherwise)'],
    ),
    'C16': dict(
        harness='brokertrace', syn=True, args=['-prop', 'C16'], shards=dict(quick=8, thorough=16),
        rule='windows 1-4, two clients, long publish streams with immediate/batched/out-of-order acks and reconnects; window monitor on the real outputs; the model requires delivery whenever a token is free; distinct = distinct traces; idle periods longer than the token timeout; a long stream into a small session queue (the publisher waits for room inside the backend)',
        assumptions=['scripted peers at quiescence granularity inside a testing/synctest bubble (go1.26): one stimulus, then every goroutine of the broker durably blocked, then the next',
                     'not modelled: a publish blocking on the full queue of another online client, a processor blocked on an exhausted publish/subscribe token (the generators stay inside; the model answers unsupported otherwise)'],
    ),
    'C20': dict(
        harness='brokertrace', syn=True, args=['-prop', 'C20'], shards=dict(quick=8, thorough=16),
        rule='first packet = each of the 14 types (CONNECT with valid/invalid/missing credentials), then 1-3 further packets incl. second CONNECT, server-only packets, pipelined batches of SUBSCRIBE/UNSUBSCRIBE/PINGREQ/PUBLISH; request/response monitor; distinct = (first packet, follow-ups, credentials); a failing Backend.Restore after acceptance; a peer that pipelines requests and stops reading while a second client connects; retained overflow on SUBSCRIBE',
        assumptions=['scripted peers at quiescence granularity inside a testing/synctest bubble (go1.26): one stimulus, then every goroutine of the broker durably blocked, then the next',
                     'not modelled: a publish blocking on the full queue of another online client, a processor blocked on an exhausted publish/subscribe token (the generators stay inside; the model answers unsupported otherwise)'],
    ),
    'C19': dict(
        harness='conntrace', syn=True, race=True, args=['-prop', 'C19'], shards=dict(quick=8, thorough=16),
        rule='real transport.BaseConn over an instrumented in-memory carrier inside a testing/synctest bubble. Scripted: random call sequences '
             '(sends of 0..10 kB from 1-4 senders sync/async, unencodable packets, Close, Receive, flush-delay and read-timeout expiry, peer data whole/split/'
             'malformed, peer close, faults at the k-th write/read/close/deadline call, flush delay 0..50 ms, carriers whose SetReadDeadline fails / succeeds '
             'after close), one call at quiescence, outcome + wire + writer buffer + error flags compared with the model line by line. Concurrent: 1-16 senders x '
             'closer(s) x receiver on pre-drawn schedules of the fake clock (calls of one instant run in parallel), faults and inbound data at random instants; '
             'each instant is one group the model must explain by SOME interleaving (acceptor). Independent monitors on the wire and the call records; TCP and '
             'WebSocket loopback pairs; distinct = distinct cases',
        assumptions=['atomicity of Send / Close / Receive / the timer callback rests on sendMutex, receiveMutex and mercury\'s mutex (structural facts) and on the '
                     'thorough tier running the harness under the race detector',
                     'calls of one fake-clock instant are really concurrent, but the schedules explored are those the Go scheduler produces, not all of them',
                     'a carrier read hands over everything available (true while inbound data fits the 4096-byte reader buffer: the generators stay inside); '
                     'partial carrier writes are not modelled',
                     'the model comparison reads unexported fields of bufio.Writer / mercury.Writer by reflection at quiescence (monitors do not)'],
        trusted=['go1.26 testing/synctest fake clock'],
    ),
    'C03': dict(
        harness='streamdiff', args=['-prop', 'C03'], shards=dict(quick=4, thorough=16),
        rule='packet sequences (1..40 packets, all 14 types, sizes around the 4096-byte bufio boundary and around the read limit) x fragmentations: every 2- and 3-way split of streams <= 64 bytes, '
             'random chunk sizes 1..k, byte-at-a-time, half reads, data-with-EOF readers, non-EOF terminal errors; every truncation of short streams and random truncations of long ones; read limits '
             'around packet lengths and a huge declared length; garbage / continuation-byte / invalid-type / mutated streams; encoder scripts over async/sync writes, Flush, delay 0 / >0, timer, failing carrier '
             'against a recording writer; real ws:// and tcp:// loopback pairs with packets split across / packed into WebSocket messages and TCP segments; '
             'monitors: round trip, fragmentation independence, truncated-never-a-packet, limit, wire = concatenation of Encode outputs, flushed after sync; distinct = distinct (stream, chunking) / scripts',
        assumptions=['timer firings are exercised with a real 2 ms delay and polling for the recorded bytes (result-deterministic); all other scripts use a one-hour delay so no timer fires',
                     'loopback cases use real localhost sockets with 10 s deadlines'],
    ),
    'C17': dict(
        harness='servicetrace', syn=True, args=['-prop', 'C17'], shards=dict(quick=8, thorough=16),
        rule='the real client.Service on a fake clock (testing/synctest) against a scripted in-memory broker peer reached through Config.Dialer: scripted scenarios '
             '(one per defect row 9/15/16/17 plus offline queueing, resubscribe, futures through the resumed session, restart, failure during resubscribe, full queue, inbound order) and '
             'weighted random walks over {Publish/Subscribe/Unsubscribe, Start, Stop(true|false) pending on a helper goroutine, dial refused / CONNECT unsendable / no CONNACK / CONNACK denied, '
             'hang-up, failing k-th write, SUBACK 0x80, no SUBACK during resubscribe, acks in/out of order and after a reconnect, inbound QoS 0/1/2 incl. a refusing callback, sleeps across every timeout}; '
             'queue capacity 1-100, clean and persistent sessions, ValidateSubs on/off; every observation (packets written, callbacks, errors, futures, queue length, store ids, subscription tree, each with its fake time) '
             'must be the next enabled output of the Lean service model; a second, concurrent mode (several API goroutines, autonomous broker) is judged by the monitors only, and so are the overlap schedules (Start from a second goroutine while a Stop waits for the supervisor: acknowledgement outstanding / waiting for the CONNACK / inside Dial / backing off, then publish, connection loss, resume, late acknowledgement); distinct = distinct traces',
        assumptions=['one stimulus per quiescent point inside a testing/synctest bubble (go1.26); observations are compared per goroutine class (supervisor / processor / API caller / connection close), the order between classes is not',
                     'combinations whose outcome depends on Go\'s random select (a Stop pending while commands are queued and the connection comes up) are exercised in the concurrent mode, where only the monitors judge',
                     'the model variant is named by the harness flag -fixed (default 9,15,16,17 = all proposed repairs present in /repo)'],
        trusted=['scripted broker peer and fake transport.Conn of gosyn/servicetrace', 'reflection on Service\'s private fields (queue length, store ids, subscription tree) at quiescence'],
    ),
    'C09': dict(
        harness='clienttrace', syn=True, args=['-prop', 'C09'], shards=dict(quick=8, thorough=16),
        rule='directed scenarios (unsendable CONNECT / failing Session.Reset then Close, dial failure, CONNACK accepted/denied/session-present/garbage/none, SUBACK failure with and without ValidateSubs, failing DeletePacket in every ack handler, API call parked in NextID/LookupPacket/SavePacket while the connection drops, resume with unacknowledged QoS 1/2 packets, id-skip: a spurious PUBREC makes an unused id busy and the allocation has to step over it, also with the lookup failing) plus, once per run (shard 0), the packet-id wrap-around id-wrap: QoS 1 publish A never acknowledged, 65535 further QoS 1 publishes each acknowledged at once, then A must still be stored, its future pending, and a reconnect must retransmit it (own monitors; the first 1500 rounds — thorough: 6000 — are also model-checked, -wrapmodel -1 checks all 590000 lines in several minutes) plus random scripts: publish/subscribe/unsubscribe/disconnect/close (also from several goroutines at once), acks in and out of order, missing and spurious acks, drops (peer close / broken carrier), k-th send / session operation failing, parked API and processor, reconnects with the same session clean and unclean; futures polled and every accessor called after each step; Close/Disconnect under a watchdog; distinct = distinct step sequences',
        assumptions=['real client.Client inside a testing/synctest bubble (go1.26) against a scripted in-memory transport.Conn, a logging / fault-injecting / parking client.Session around session.MemorySession and a scripted Callback; every visible event must be an enabled step of lean/Model/Client.lean (hidden micro-steps are searched)',
                     'exported methods are entered one at a time through a harness-level lock (Client.mutex serialises them anyway; structural fact F-lock), their micro-steps interleave freely with the processor',
                     'KeepAlive is 0 in the harness: under the exact fake clock the pinger re-arms a zero timer for ever (Window()==0 is "not due"); the pinger is part of the model and the theorems but is not exercised by the correspondence run',
                     'async Send into a locally closed connection succeeds (as BaseConn buffers it), a failed Send closes the carrier'],
    ),
    'C10': dict(
        harness='clienttrace', syn=True, args=['-prop', 'C10'], shards=dict(quick=8, thorough=16),
        rule='directed scenarios (PUBREL for an unknown id, PUBCOMP write failing then resumed PUBREL, callback error at QoS 0/1/2 in both callback modes then redelivery, duplicated PUBLISH / repeated PUBREL over ids 1-3) plus random broker scripts over {PUBLISH(id 1-3, qos 0-2, dup), PUBREL known/unknown/repeated, drop + resume with the same session, clean and unclean} with callback errors and failing sends at every acknowledgement, both callback modes; distinct = distinct step sequences',
        assumptions=['real client.Client inside a testing/synctest bubble (go1.26) against a scripted in-memory transport.Conn, a logging / fault-injecting / parking client.Session around session.MemorySession and a scripted Callback; every visible event must be an enabled step of lean/Model/Client.lean (hidden micro-steps are searched)',
                     'exported methods are entered one at a time through a harness-level lock (Client.mutex serialises them anyway; structural fact F-lock), their micro-steps interleave freely with the processor',
                     'KeepAlive is 0 in the harness: under the exact fake clock the pinger re-arms a zero timer for ever (Window()==0 is "not due"); the pinger is part of the model and the theorems but is not exercised by the correspondence run',
                     'async Send into a locally closed connection succeeds (as BaseConn buffers it), a failed Send closes the carrier'],
    ),
}

# additions made with the later seeded rounds
PROPS['C18']['rule'] += '; Reset of counters restored at any value; a full allocation run on a session holding packets; the restore constructor (NewPacketStoreWithPackets) with repeated ids and id-less packets; listings kept and re-read after later operations'
PROPS['C04']['rule'] += '; sets with a past (entries added and removed / emptied again, also level-wise prefixes of stored filters); distinct deeply-equal values'
PROPS['C03']['rule'] += '; a read limit set while Read waits; a carrier that takes a large write in two halves while another stream of the process decodes and encodes (encoder buffer ownership)'
