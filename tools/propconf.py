"""Per-property configuration of the check driver (harness, arguments, spec operations)."""
PROPS = {
    'C01': dict(
        harness='codecdiff', args=['-prop', 'C01'], shards=dict(quick=4, thorough=16),
        spec_ops=['codec refenc'],
        rule='type-directed generator over the repo\'s packet structs (14 types, boundary ids/lengths, remaining lengths around every '
             'varint boundary) plus a malformed stream violating one well-formedness clause; distinct = distinct canonical packet texts',
        assumptions=['Go int modelled as unbounded Nat (all lengths ≤ 2^28)', 'pooled buffers / unsafe string cast not modelled'],
    ),
    'C02': dict(
        harness='codecdiff', args=['-prop', 'C02'], shards=dict(quick=4, thorough=16),
        spec_ops=['codec refdec'],
        rule='all 1- and 2-byte headers, sampled 3..11-byte headers over type x flags x continuation patterns x 7-bit groups, random bytes, '
             'structure-aware mutations and splices of valid encodings, each decoded raw, framed and embedded; distinct = distinct inputs '
             'that decode successfully',
        assumptions=['aliasing (decoded packet owns its data) is validated by the harness, not proved: the value model cannot express it'],
    ),
    'C04': dict(
        harness='treediff', args=['-prop', 'C04'], shards=dict(quick=4, thorough=16),
        spec_ops=['tree spec'],
        rule='every valid filter over levels {a,b,empty,+,#} (depth<=3 quick, 4 thorough) against every name over {a,b,empty}, both directions; '
             'random sets of 1-3 filters/names; random deep (<=12 levels) multi-byte topics; distinct = distinct (filter,name) pairs / filters queried',
        assumptions=['Go map iteration order is canonicalised by sorting result sets'],
    ),
    'C05': dict(
        harness='treediff', args=['-prop', 'C05'], shards=dict(quick=4, thorough=16),
        spec_ops=['tree spec'],
        rule='exhaustive operation sequences over 6 topics x 2 values (45 ops; length 2 quick, 3 thorough) with every query after the sequence, '
             'random histories up to 120/400 ops with queries interleaved; snapshot, aliasing and history-independence monitors on the real tree; '
             'distinct = distinct exhaustive op sequences',
        assumptions=['data-race freedom and atomicity rest on the mutex (fact F-lock) and the race detector, not on the Lean model'],
    ),
    'C18': dict(
        harness='sessiondiff', args=['-prop', 'C18'], ignore_ops=['sess allord'], shards=dict(quick=4, thorough=16), race=True,
        rule='all 65536 counter states x 3 allocations; full 65535-allocation cycles from boundary start states; every store history of length 3 (quick) / 4 '
             '(thorough) over 2 directions x 3 ids x {save,save-other,lookup,delete,all,id-less save} + reset, random long histories; a Go map per direction '
             'as the property monitor; 2/4/16 concurrent allocators; distinct = distinct exhaustive histories and full cycles',
        assumptions=['concurrent callers: atomicity rests on the mutex (fact F-lock); the thorough tier runs the harness under the race detector'],
    ),
}
