#!/bin/sh
# dev helper: build brokertrace, run one property, show rejected lines
export GOFLAGS=-mod=mod GOPROXY=off GOSUMDB=off GOTOOLCHAIN=local
cd /verif/gosyn && cp /repo/go.sum . && go1.26 test -c -tags verif -o /tmp/brokertrace ./brokertrace || exit 1
rm -rf /tmp/bt && /tmp/brokertrace -test.run '^TestHarness$' -prop $1 -seed ${2:-1} -tier ${3:-quick} -out /tmp/bt 2>&1 | tail -15
wc -l /tmp/bt/ops.txt
/verif/lean/.lake/build/bin/driver < /tmp/bt/ops.txt > /tmp/bt/model.txt
echo "rejects: $(diff /tmp/bt/impl.txt /tmp/bt/model.txt | grep -c '^>')  monitor hits: $(wc -l < /tmp/bt/monitor.jsonl)"
paste -d'|' /tmp/bt/ops.txt /tmp/bt/model.txt | grep -v '|ok$' | grep -v '^#' | head -${4:-10}
