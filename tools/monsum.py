#!/usr/bin/env python3
import json,collections,sys
c=collections.Counter(); ex={}
for l in open(sys.argv[1] if len(sys.argv)>1 else '/tmp/bt/monitor.jsonl'):
    m=json.loads(l); c[m['kind']]+=1; ex.setdefault(m['kind'],m)
print(dict(c))
for k,v in ex.items():
    print('--',k,':',v['detail'][:300]); 
    if len(sys.argv)>2: print('\n'.join(v['replay'][-int(sys.argv[2]):]))
