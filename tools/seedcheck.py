#!/usr/bin/env python3
"""seedcheck.py <mutant-dir> <seed-id> <Cnn> [Cnn…]
Confirms a seeded change (patch.diff + demo/ with run.txt + README.md) in a scratch worktree of /repo and runs the given checks
against it (VERIF_REPO), then files it under /verif/seeded/<seed-id>/ with meta.json.  Nothing is ever applied to /repo itself."""
import json, os, shutil, subprocess, sys, time
ROOT = os.path.dirname(os.path.dirname(os.path.abspath(__file__)))
args = [a for a in sys.argv[1:] if a != '--checks-only']
CHECKS_ONLY = '--checks-only' in sys.argv   # re-run only the checks against an already confirmed seed
src, sid, props = os.path.abspath(args[0]), args[1], args[2:]
wt = f'/tmp/seedwt-{sid}'
env = dict(os.environ, GOFLAGS='-mod=mod', GOPROXY='off', GOSUMDB='off', GOTOOLCHAIN='local')
def sh(cmd, cwd=None, e=None, timeout=3000):
    r = subprocess.run(cmd, cwd=cwd, env=e or env, shell=isinstance(cmd, str), stdout=subprocess.PIPE, stderr=subprocess.STDOUT, text=True, timeout=timeout)
    return r.returncode, r.stdout
subprocess.run(['git', '-C', '/repo', 'worktree', 'remove', '--force', wt], capture_output=True)
assert sh(['git', '-C', '/repo', 'worktree', 'add', '-q', '--detach', wt, 'HEAD'])[0] == 0
meta = dict(id=sid, breaks=props[0], checked_against=props, source=src, at=time.strftime('%Y-%m-%d %H:%M'))
try:
    readme = open(os.path.join(src, 'README.md')).read() if os.path.exists(os.path.join(src, 'README.md')) else ''
    demo = os.path.join(src, 'demo')
    runcmd = open(os.path.join(demo, 'run.txt')).read().strip().splitlines()[-1].replace('<outdir>', os.path.dirname(src))
    # copy demo files into the worktree at the place the run command expects: demo files named *_test.go go to the package
    # directory mentioned in run.txt (./pkg/...), other layouts are copied as demo/ under the worktree root
    placed = []
    pkgdir = None
    for tok in runcmd.split():
        t = tok.strip('./')
        if tok.startswith('./') and os.path.isdir(os.path.join(wt, t.rstrip('/.'))):
            pkgdir = t.rstrip('/.')
    for f in os.listdir(demo):
        if f == 'run.txt':
            continue
        if f.endswith('_test.go') and pkgdir:
            dst = os.path.join(wt, pkgdir, f)
        else:
            dst = os.path.join(wt, 'zz_demo', f)
            os.makedirs(os.path.dirname(dst), exist_ok=True)
        if os.path.isdir(os.path.join(demo, f)):
            shutil.copytree(os.path.join(demo, f), dst)
        else:
            shutil.copy(os.path.join(demo, f), dst)
        placed.append(dst)
    if CHECKS_ONLY:
        prev = json.load(open(os.path.join(src, 'meta.json'))) if os.path.exists(os.path.join(src, 'meta.json')) else {}
        rc0 = 0
        meta['demo_without_change'] = prev.get('demo_without_change', '?')
    else:
        rc0, out0 = sh(runcmd, cwd=wt)
        meta['demo_without_change'] = 'pass' if rc0 == 0 else 'FAIL'
    rc, out = sh(['git', 'apply', os.path.join(src, 'patch.diff')], cwd=wt)
    assert rc == 0, 'patch does not apply: ' + out
    rcb, outb = sh('go build ./...', cwd=wt)
    meta['builds'] = rcb == 0
    if CHECKS_ONLY:
        meta['demo_with_change'] = prev.get('demo_with_change', '?')
    else:
        rc1, out1 = sh(runcmd, cwd=wt)
        meta['demo_with_change'] = 'fail' if rc1 != 0 else 'PASSES'
    for p in placed:
        shutil.rmtree(p) if os.path.isdir(p) else os.remove(p)
    shutil.rmtree(os.path.join(wt, 'zz_demo'), ignore_errors=True)
    # the repository's own suite with the change (retry once: broker/client tests are timing sensitive under load)
    for attempt in ((1, 2) if not CHECKS_ONLY else ()):
        rcs, outs = sh(['python3', os.path.join(ROOT, 'tools', 'baseline.py'), './packet/...', './topic/...', './session/...', './broker/...', './client/...', './transport/flow/...'],
                       e=dict(env, VERIF_REPO=wt))
        if rcs == 0:
            break
    meta['existing_suite_with_change'] = prev.get('existing_suite_with_change', '?') if CHECKS_ONLY else ('pass' if rcs == 0 else 'FAIL: ' + outs[-600:])
    meta['runcmd'] = runcmd
    meta['checks'] = {}
    for p in props:
        t0 = time.time()
        rcc, outc = sh([os.path.join(ROOT, 'check'), p, '--tier', 'quick'], cwd=ROOT, e=dict(env, VERIF_REPO=wt))
        lines = [l for l in outc.splitlines() if l.startswith(('VIOLATION', 'KNOWN-FINDING', '['))]
        meta['checks'][p] = dict(exit=rcc, verdict=('VIOLATION' if any(l.startswith('VIOLATION') for l in lines) else 'silent'), lines=lines[-4:], wall=round(time.time() - t0, 1))
        # keep the replay of a detection next to the seed
        for l in lines:
            if l.startswith('VIOLATION') and 'replay=' in l:
                rp = l.split('replay=')[1].split()[0]
                if os.path.exists(rp):
                    os.makedirs(os.path.join(ROOT, 'seeded', sid), exist_ok=True)
                    try:
                        d = json.load(open(rp))
                        v = d['violations'][0]
                        meta['checks'][p]['caught_by'] = v.get('kind') + ((':' + v['hits'][0]['kind']) if v.get('hits') else '')
                    except Exception:
                        pass
finally:
    subprocess.run(['git', '-C', '/repo', 'worktree', 'remove', '--force', wt], capture_output=True)
    for d in ('go', 'gosyn'):
        for f in os.listdir(os.path.join(ROOT, d)):
            if f.startswith('alt-'):
                os.remove(os.path.join(ROOT, d, f))
dst = os.path.join(ROOT, 'seeded', sid)
os.makedirs(dst, exist_ok=True)
if os.path.abspath(src) != os.path.abspath(dst):
    shutil.copy(os.path.join(src, 'patch.diff'), os.path.join(dst, 'patch.diff'))
    shutil.rmtree(os.path.join(dst, 'demo'), ignore_errors=True)
    shutil.copytree(os.path.join(src, 'demo'), os.path.join(dst, 'demo'))
if readme and os.path.abspath(src) != os.path.abspath(dst):
    open(os.path.join(dst, 'README.md'), 'w').write(readme)
    meta['needs_to_manifest'] = 'see README.md'
json.dump(meta, open(os.path.join(dst, 'meta.json'), 'w'), indent=1)
print(json.dumps({k: meta[k] for k in ('id', 'demo_without_change', 'demo_with_change', 'existing_suite_with_change', 'checks') if k in meta}, indent=1))
