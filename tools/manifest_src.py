HOOK_COMMITS = []
TB = ('Trusted: Lean 4.33 kernel (axioms propext, Classical.choice, Quot.sound only; no sorry/native_decide); the hand-written model '
      '(not a mechanical translation of the Go code); the Go harness, Lean driver, canonicalisation and check script. The model is tied to '
      '/repo by sampling (differential run on generated inputs every run), so the assurance is: algorithm proved for all inputs, code '
      'observed to behave like the algorithm on the inputs of this run. ')
CHECKS = {
    'C01': dict(
        text='Round-trip, Len and reference-layout theorems are proved in Lean for every well-formed packet value (unbounded sizes); the model '
             'is compared with the real codec on generated well-formed and malformed packets, and the real codec with the independent '
             'reference codec, on every run.',
        design_ref='§5 C01', technique='Lean 4 proof (round-trip by structural induction) + differential correspondence',
        note=TB + 'Go int as Nat; pooled buffers, unsafe cast not modelled.'),
    'C02': dict(
        text='Totality/no-panic, consumed≤len, locality and agreement with the reference decoder are proved in Lean for every byte string; '
             'the model is compared with the real decoder on exhaustive short headers, random and mutated inputs; CONNECT over-read is a known finding.',
        design_ref='§5 C02', technique='Lean 4 proof (total functions, well-founded loops) + differential correspondence',
        note=TB + 'Ownership (no aliasing of the input buffer) is validated by the harness only.'),
    'C04': dict(
        text='match_correct / search_correct (the trie lookup returns exactly the values stored under §4.7-matching filters resp. names, for every trie, name and filter), '
             'duplicate-freeness, agreement of the two directions, first-match variants and walk = split are Lean theorems; the model and the five-line §4.7 '
             'specification are both compared with the real topic.Tree on exhaustive small filter/name universes and random deep ones.',
        design_ref='§5 C04', technique='Lean 4 proof (induction on level lists over a nested-inductive trie) + differential correspondence',
        note=TB + 'Go map iteration order canonicalised by sorting.'),
    'C05': dict(
        text='Refinement of the trie to a plain topic->value-list map for every operation history (step_refines/refines_all), pruning, history independence (canonical), '
             'count/all/get/match/search equal to the map\'s answers are Lean theorems; the real tree is compared with model and map on exhaustive short and random long histories; '
             'snapshot/aliasing/history-independence monitors run on the real tree. Partial: atomicity under concurrency rests on the mutex + race detector.',
        design_ref='§5 C05', technique='Lean 4 proof (refinement to an abstract map, invariants by induction over operations) + differential correspondence',
        note=TB + 'Concurrency and aliasing are outside the value model (partial).'),
    'C18': dict(
        text='Never-zero ids, the closed form of the allocation sequence and pairwise distinctness of any 65535 consecutive ids from every start state '
             '(arithmetic proof, no enumeration), reset, and the refinement of the packet store to a map id -> last packet for every history are Lean theorems; '
             'the model is compared with the real session package over all 65536 counter states, full allocation cycles and bounded-exhaustive + random store histories.',
        design_ref='§5 C18', technique='Lean 4 proof (closed form + refinement by induction over histories) + differential correspondence',
        note=TB + 'Concurrent callers: sequential model proved; atomicity rests on the mutex (checked structurally / by the race detector), labelled partial.'),
}
TBB = ('Trusted: Lean 4.33 kernel (axioms propext, Classical.choice, Quot.sound only; no sorry/native_decide); the hand-written broker LTS '
       'lean/Model/Broker.lean (stimuli at quiescence; an acceptor for the observations); the trace-conformance harness gosyn/brokertrace (real broker.Client + '
       'MemoryBackend inside a testing/synctest bubble, scripted peers, wrapping backend), the Lean driver, the monitors, the check script. The theorems are about the '
       'model; every run checks that each observed broker output is an enabled output of the model on the generated scripts (sampling) and evaluates independent '
       'property monitors on the real outputs. Not modelled: a publish blocking on the full queue of another online client, processors blocked on exhausted tokens, wall-clock values. ')
BROKER = {
    'C06': ('Fan-out exactness (every session related by FanRel: one copy iff a stored filter matches per MQTT 4.7, retain cleared, nothing else touched), QoS capping = min, '
            'own QoS per filter of a multi-filter SUBSCRIBE, replacement on re-subscribe, removal on unsubscribe before the UNSUBACK is queued are Lean theorems for every broker state; '
            'random multi-client histories are replayed against the real broker and accepted by the model; an independent 4.7 delivery monitor runs on the real outputs.',
            'Lean 4 proof (induction over the session lists / subscription trie) + trace conformance'),
    'C07': ('PUBACK/PUBCOMP are queued only after Backend.Publish returned, PUBREC only after the message is stored, every PUBREL is answered, a synchronously acknowledged QoS 2 message is '
            'forgotten before its PUBCOMP is queued so a repeated PUBREL hands nothing on: Lean theorems per processor step for every state; late/never acknowledging backends with a connection loss are a '
            'recorded known finding (full statement refuted, partial proved). Publisher scripts with drops, failing sends and ack modes are replayed against the real broker.',
            'Lean 4 proof (per-step theorems on the processor model) + trace conformance'),
    'C08': ('Recorded-before-sent, kept-until-acknowledged (frame theorems: only PUBACK/PUBCOMP delete, PUBREC replaces by PUBREL), resend of exactly the stored packets in store order with DUP, '
            'session-present iff stored state was resumed, clean start discards, offline queueing up to capacity; a delivery takes a packet id no stored packet uses, so nothing is overwritten (fresh_id_unused): Lean theorems for every state; subscriber scripts with cuts at every point and one full packet-id wrap-around (65535 deliveries against a withheld acknowledgement) are replayed against the real broker.',
            'Lean 4 proof (frame/invariant theorems on the outbound model) + trace conformance'),
    'C11': ('The retained store refines the map "last non-empty retained publish per topic" for every publish history; a subscription is handed exactly the retained messages whose topics its filter matches (via search_correct), '
            'flagged retained; live copies have the flag cleared: Lean theorems; retained/clear/will histories with every filter of the filter set are replayed against the real broker.',
            'Lean 4 proof (refinement to a map over publish histories) + trace conformance'),
    'C12': ('Every termination cause funnels through one kill/cleanup function whose backend events are proved to be exactly [will publish iff accepted, will present, no DISCONNECT] ++ [Terminate], once (a dead connection is a fixed point); '
            'the stored will equals the CONNECT will: Lean theorems for every state; cause x protocol-state x will-flag scripts are replayed against the real broker with a will-count monitor.',
            'Lean 4 proof (case analysis of the lifecycle model) + trace conformance'),
    'C13': ('unique_active (at most one live connection per client id) as an inductive invariant over every reachable state of the model, takeover order (old will + Terminate precede the newcomer\'s Setup/CONNACK), '
            'session hand-over without loss or duplication: Lean theorems; takeover storms incl. stuck old connections are replayed against the real broker.',
            'Lean 4 proof (inductive invariant over the LTS) + trace conformance'),
    'C14': ('Isolation (a step of one connection leaves every other connection record untouched and only appends to other sessions\' queues), out-of-protocol input closes only the offender, Terminate exactly once per set-up connection, '
            'closed signal at quiescence, and the envelope in which the model is total: Lean theorems; hostile histories next to witness traffic are replayed against the real broker (process crash or undrained goroutines = violation).',
            'Lean 4 proof (frame theorems) + trace conformance'),
    'C15': ('Queues are FIFO per class (enqueue at the tail, delivery from the head / first group), one atomic fan-out per publish, resend in store order = order of first transmission: Lean theorems; numbered-message scripts with '
            'resumes are replayed against the real broker with an order monitor. Client-side clauses (callback order, service command FIFO) are covered by the client/service models.',
            'Lean 4 proof (queue discipline theorems) + trace conformance'),
    'C16': ('The window invariant (tokens + token in hand + stored unacknowledged packets <= window) over every reachable state under the explicit hypothesis that the subscriber acknowledges only what it received '
            '(the spurious-ack witness is a lemma), QoS 0 takes no slot, no token leak, progress at quiescence: Lean theorems; acknowledgement patterns are replayed against the real broker with a window monitor.',
            'Lean 4 proof (inductive invariant over the LTS) + trace conformance'),
    'C20': ('Nothing before CONNECT (any other first packet = kill without reply or backend call), failed authentication = exactly one CONNACK(5) and nothing else, second CONNECT / server-only packets close, '
            'SUBACK/UNSUBACK/PINGRESP match their request, at most one CONNACK: Lean theorems for every state; all short packet sequences are replayed against the real broker.',
            'Lean 4 proof (case analysis of the processor model) + trace conformance'),
}
TBX = ('Trusted: Lean 4.33 kernel (axioms propext, Classical.choice, Quot.sound only; no sorry/native_decide); the hand-written model (not a mechanical translation of the Go code); '
       'the Go harness, Lean driver, canonicalisation, monitors and check script. The theorems are about the model; every run compares / replays the real code against the model on generated '
       'scripts (sampling) and evaluates independent property monitors on the real behaviour. ')
BROKER['C19'] = ('Every byte sequence on the carrier is the concatenation of the whole encodings of the accepted sends in event order (hence per-sender order) for every interleaving of send/timer/close/receive/fault events; '
                 'close flushes everything accepted before the carrier is closed; after close or any error flushed sends fail at once, buffered sends after the next timer fire, receives never block; no event is ever disabled '
                 'and there is no panic outcome: Lean theorems over every event sequence of the BaseConn LTS. The real transport.BaseConn (+ packet.Stream, mercury.Writer) runs over an instrumented carrier inside a testing/synctest bubble, '
                 'scripted (exact comparison) and concurrent (the model must explain each instant by some interleaving), plus TCP/WebSocket loopback pairs. Partial: the carrier close on the receive error path is outside sendMutex and is treated as an environment fault event.',
                 'Lean 4 proof (invariants over every event sequence of an LTS) + trace conformance')
BROKER['C03'] = ('Decoder.Read depends on the byte stream only, never on how it is chunked (read_chunk_invariant, for every chunking and every way of delivering EOF); encodings of well-formed packets read back as exactly those packets then clean EOF under any chunking; '
                 'a declared length above the read limit is refused after at most 5 peeked bytes; a stream ending inside a packet yields unexpected-EOF and never a packet; detection overflow iff four continuation bytes; for every event sequence of async/sync writes, flushes and timer fires '
                 'wire ++ buffer = concatenation of the encodings in send order and the buffer is empty after a sync write/flush; WebSocket message boundaries are irrelevant (ws_fragmentation_irrelevant): Lean theorems. The real packet.Decoder/Encoder/Stream, mercury.Writer and the '
                 'transport WebSocket/TCP connections are compared with the model on every 2-/3-way split of short streams, random chunkings, truncations, limits, garbage, encoder scripts and real loopback pairs. Partial: ws_stitch holds under gorilla\'s reader contract (EOF arrives alone); the unrestricted statement is refuted by a latent (n>0, EOF) case that gorilla over TCP never produces.',
                 'Lean 4 proof (chunk-invariance and round-trip by induction over chunk lists / event lists) + differential correspondence')
BROKER['C09'] = ('Stored-before-sent, kept-until-acknowledged, PUBREC replaces by PUBREL, retransmission of exactly the stored list in store order with DUP on the next connect, futures complete only inside the acknowledgement handler for their id '
                 '(QoS 0: after the send), a request takes a packet id under which no outgoing packet is stored (fresh_id_unused; the allocation loop is MemorySession.freshID and fails only with 65535 stored packets), no pending future once the client is disconnected with no call in progress and no processor (proves that re-checking the state after Put closes the race with cleanup), Close/Disconnect never block, accessors never panic: '
                 'Lean theorems over every step sequence of the client LTS (API calls split into their statements so that the unlocked processor cleanup can fall between any two). The real client.Client runs against a scripted broker over Config.Dialer inside a '
                 'testing/synctest bubble with a wrapping session that can fail or park every operation, including one full packet-id wrap-around (65535 acknowledged publishes against one withheld acknowledgement). Partial: all_resolved_at_end is proved without the keep-alive pinger; the unrestricted statement is refuted by a pinger/CONNACK interleaving at model level that could not be forced on the real code.',
                 'Lean 4 proof (invariants over every step sequence of an LTS at statement granularity) + trace conformance')
BROKER['C10'] = ('PUBREC for every QoS 2 PUBLISH, PUBCOMP for every PUBREL (unknown ids included), QoS 0/1 passed on in arrival order with PUBACK after the callback, callback error => no acknowledgement and connection closed, and exactly one callback per QoS 2 handshake '
                 'for client || well-behaved broker over all reachable states (lost acknowledgements, duplicated PUBLISH, repeated PUBREL, interleaved ids and reconnects unconstrained): Lean theorems. Broker scripts with send failures at every acknowledgement and both callback modes '
                 'are replayed against the real client.',
                 'Lean 4 proof (invariants over client || broker-monitor product) + trace conformance')
BROKER['C17'] = ('subscriptions = fold of the dispatched subscribe/unsubscribe commands (refining the C05 map), resubscribe request = that set sorted by topic as the first write after online, command queue FIFO and untouched by failures, the protected store keeps futures across reconnects and the matching acknowledgement completes them, '
                 'Stop is always enabled, makes progress, returns and with clearFutures leaves no command future pending, Start works afterwards: Lean theorems over every reachable state of the service LTS. The real client.Service runs against scripted connections (dial refused, CONNECT unsendable, no CONNACK, drops, rejected subscriptions, '
                 'late acknowledgements) inside a testing/synctest bubble, every Stop under a watchdog. Partial: liveness is proved up to the runtime (durations, scheduler, select fairness are observed only).',
                 'Lean 4 proof (invariants and a progress measure over every reachable state of an LTS) + trace conformance')
NOTE_OVERRIDE = {'C09': TBX + 'Not modelled: the keep-alive pinger in the conformance run (the fake clock re-arms a zero timer for ever; the pinger is in the model and theorems only), real time.',
 'C10': TBX + 'The early-callback mode is modelled; exactly-once is claimed for the default mode only, as the property says.',
 'C17': TBX + 'Not modelled: backoff durations, real time; the client is abstracted to its observable connection-attempt outcomes (its internals are C09/C10).',
 'C03': TBX + 'Modelled by contract, not verified: bufio.Reader (Peek/ReadFull), gorilla/websocket message readers, mercury.Writer (from its source); io.ErrNoProgress and real timer timing are not modelled.',
'C19': TBX + 'Not modelled: OS socket behaviour, real blocking, partial carrier writes; packets are opaque byte strings here (framing is C03).'}
import json as _json, os as _os
_props = _json.load(open(_os.path.join(_os.path.dirname(_os.path.dirname(_os.path.abspath(__file__))), 'lean', 'PROPS.json')))
for _pid, (_text, _tech) in BROKER.items():
    if _props.get(_pid, {}).get('theorems'):
        CHECKS[_pid] = dict(text=_text + ((' Partial: ' + _props[_pid]['partial']) if _props[_pid].get('partial') else ''), design_ref='§5 ' + _pid, technique=_tech, note=NOTE_OVERRIDE.get(_pid, TBB))
_PENDING = 'check not built yet in this revision (planned, see DESIGN.md §10); nothing is claimed'
NOT_APPLICABLE = {f'C{n:02d}': _PENDING for n in range(1, 21) if f'C{n:02d}' not in CHECKS}
