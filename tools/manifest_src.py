HOOK_COMMITS = []
TB = ('Trusted: Lean 4.33 kernel (axioms propext, Classical.choice, Quot.sound only; no sorry/native_decide); the hand-written model '
      '(not a mechanical translation of the Go code); the Go harness, Lean driver, canonicalisation and check script. The model is tied to '
      '/repo by sampling (differential run on generated inputs every run), so the assurance is: algorithm proved for all inputs, code '
      'observed to behave like the algorithm on the inputs of this run. ')
CHECKS = {
    'C01': dict(
        text='Round-trip, Len and reference-layout theorems are proved in Lean for every well-formed packet value (unbounded sizes); the model '
             'is compared with the real codec on generated well-formed and malformed packets, and the real codec with the independent '
             'reference codec, on every run.',
        design_ref='§5 C01', technique='Lean 4 proof (round-trip by structural induction) + differential correspondence',
        note=TB + 'Go int as Nat; pooled buffers, unsafe cast not modelled.'),
    'C02': dict(
        text='Totality/no-panic, consumed≤len, locality and agreement with the reference decoder are proved in Lean for every byte string; '
             'the model is compared with the real decoder on exhaustive short headers, random and mutated inputs; CONNECT over-read is a known finding.',
        design_ref='§5 C02', technique='Lean 4 proof (total functions, well-founded loops) + differential correspondence',
        note=TB + 'Ownership (no aliasing of the input buffer) is validated by the harness only.'),
    'C04': dict(
        text='match_correct / search_correct (the trie lookup returns exactly the values stored under §4.7-matching filters resp. names, for every trie, name and filter), '
             'duplicate-freeness, agreement of the two directions, first-match variants and walk = split are Lean theorems; the model and the five-line §4.7 '
             'specification are both compared with the real topic.Tree on exhaustive small filter/name universes and random deep ones.',
        design_ref='§5 C04', technique='Lean 4 proof (induction on level lists over a nested-inductive trie) + differential correspondence',
        note=TB + 'Go map iteration order canonicalised by sorting.'),
    'C05': dict(
        text='Refinement of the trie to a plain topic->value-list map for every operation history (step_refines/refines_all), pruning, history independence (canonical), '
             'count/all/get/match/search equal to the map\'s answers are Lean theorems; the real tree is compared with model and map on exhaustive short and random long histories; '
             'snapshot/aliasing/history-independence monitors run on the real tree. Partial: atomicity under concurrency rests on the mutex + race detector.',
        design_ref='§5 C05', technique='Lean 4 proof (refinement to an abstract map, invariants by induction over operations) + differential correspondence',
        note=TB + 'Concurrency and aliasing are outside the value model (partial).'),
    'C18': dict(
        text='Never-zero ids, the closed form of the allocation sequence and pairwise distinctness of any 65535 consecutive ids from every start state '
             '(arithmetic proof, no enumeration), reset, and the refinement of the packet store to a map id -> last packet for every history are Lean theorems; '
             'the model is compared with the real session package over all 65536 counter states, full allocation cycles and bounded-exhaustive + random store histories.',
        design_ref='§5 C18', technique='Lean 4 proof (closed form + refinement by induction over histories) + differential correspondence',
        note=TB + 'Concurrent callers: sequential model proved; atomicity rests on the mutex (checked structurally / by the race detector), labelled partial.'),
}
_PENDING = 'check not built yet in this revision (planned, see DESIGN.md §10); nothing is claimed'
NOT_APPLICABLE = {f'C{n:02d}': _PENDING for n in range(1, 21) if f'C{n:02d}' not in CHECKS}
