HOOK_COMMITS = []
TB = ('Trusted: Lean 4.33 kernel (axioms propext, Classical.choice, Quot.sound only; no sorry/native_decide); the hand-written model '
      '(not a mechanical translation of the Go code); the Go harness, Lean driver, canonicalisation and check script. The model is tied to '
      '/repo by sampling (differential run on generated inputs every run), so the assurance is: algorithm proved for all inputs, code '
      'observed to behave like the algorithm on the inputs of this run. ')
CHECKS = {
    'C01': dict(
        text='Round-trip, Len and reference-layout theorems are proved in Lean for every well-formed packet value (unbounded sizes); the model '
             'is compared with the real codec on generated well-formed and malformed packets, and the real codec with the independent '
             'reference codec, on every run.',
        design_ref='§5 C01', technique='Lean 4 proof (round-trip by structural induction) + differential correspondence',
        note=TB + 'Go int as Nat; pooled buffers, unsafe cast not modelled.'),
    'C02': dict(
        text='Totality/no-panic, consumed≤len, locality and agreement with the reference decoder are proved in Lean for every byte string; '
             'the model is compared with the real decoder on exhaustive short headers, random and mutated inputs; CONNECT over-read is a known finding.',
        design_ref='§5 C02', technique='Lean 4 proof (total functions, well-founded loops) + differential correspondence',
        note=TB + 'Ownership (no aliasing of the input buffer) is validated by the harness only.'),
    'C18': dict(
        text='Never-zero ids, the closed form of the allocation sequence and pairwise distinctness of any 65535 consecutive ids from every start state '
             '(arithmetic proof, no enumeration), reset, and the refinement of the packet store to a map id -> last packet for every history are Lean theorems; '
             'the model is compared with the real session package over all 65536 counter states, full allocation cycles and bounded-exhaustive + random store histories.',
        design_ref='§5 C18', technique='Lean 4 proof (closed form + refinement by induction over histories) + differential correspondence',
        note=TB + 'Concurrent callers: sequential model proved; atomicity rests on the mutex (checked structurally / by the race detector), labelled partial.'),
}
_PENDING = 'check not built yet in this revision (planned, see DESIGN.md §10); nothing is claimed'
NOT_APPLICABLE = {f'C{n:02d}': _PENDING for n in range(1, 21) if f'C{n:02d}' not in CHECKS}
