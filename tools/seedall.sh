#!/bin/sh
# re-runs, for every seeded change under /verif/seeded, the quick check of the property it breaks (scratch worktree, VERIF_REPO)
# usage: tools/seedall.sh [parallel jobs, default 1]
cd "$(dirname "$0")/.."
one() {
  d=$1; id=$(basename $d)
  p=$(python3 -c "import json;print(json.load(open('$d/meta.json'))['breaks'])")
  python3 tools/seedcheck.py $d $id $p --checks-only 2>&1 | python3 -c "
import sys,json
t=sys.stdin.read()
try:
    t=t[t.index('{'):]; d=json.loads(t)
    print(d['id'], {k:(v['verdict'],v.get('caught_by','')) for k,v in d['checks'].items()})
except Exception as e:
    print('$id', 'ERROR', t.strip().splitlines()[-1][:200] if t.strip() else e)"
}
if [ "$1" = "--one" ]; then one $2; exit; fi
ls -d seeded/*/ | xargs -P ${1:-1} -n 1 sh tools/seedall.sh --one
