#!/bin/sh
# re-runs, for every seeded change under /verif/seeded, the quick check of the property it breaks (scratch worktree, VERIF_REPO)
cd "$(dirname "$0")/.."
for d in seeded/*/; do
  id=$(basename $d)
  p=$(python3 -c "import json;print(json.load(open('$d/meta.json'))['breaks'])")
  python3 tools/seedcheck.py $d $id $p --checks-only 2>/dev/null | python3 -c "
import sys,json
t=sys.stdin.read(); t=t[t.index('{'):]; d=json.loads(t)
print(d['id'], {k:(v['verdict'],v.get('caught_by','')) for k,v in d['checks'].items()})"
done
