#!/bin/sh
# unchanged-tree sweep: tools/sweep.sh "<props>" "<seeds>" [tier]   (run from the /verif root or a snapshot of it)
cd "$(dirname "$0")/.."
./setup.sh > sweep-setup.log 2>&1 || { echo "setup failed"; tail -20 sweep-setup.log; exit 2; }
tier=${3:-quick}
fail=0
for s in $2; do
  for p in $1; do
    out=$(./check $p --tier $tier --seed $s 2>&1 | grep -E '^\[|^VIOLATION' | tr '\n' ' ')
    echo "seed=$s $out"
    case "$out" in *VIOLATION*) fail=1; cp $(echo "$out" | sed 's/.*replay=\([^ ]*\).*/\1/') sweep-fail-$p-$s.json 2>/dev/null;; esac
  done
done
echo "sweep done fail=$fail"
