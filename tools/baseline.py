#!/usr/bin/env python3
"""Run the repository's test suite (guard OFF) and compare with /root/.vp/BASELINE.json stable_pass.
usage: baseline.py [pkg-pattern ...]   exit 0 iff every stable_pass test in the selected packages passed."""
import json, os, subprocess, sys
env = dict(os.environ, GOFLAGS='-mod=mod', GOPROXY='off', GOSUMDB='off', GOTOOLCHAIN='local')
pk = sys.argv[1:] or ['./...']
p = subprocess.run(['go', 'test', '-json', '-vet=off', '-count=1', '-timeout', '25m'] + pk, cwd=os.environ.get('VERIF_REPO', '/repo'), env=env,
                   stdout=subprocess.PIPE, stderr=subprocess.STDOUT, text=True)
passed, failed = set(), set()
for line in p.stdout.splitlines():
    try: ev = json.loads(line)
    except Exception: continue
    if ev.get('Test') and ev.get('Action') in ('pass', 'fail'):
        (passed if ev['Action'] == 'pass' else failed).add(ev['Package'] + '::' + ev['Test'])
base = json.load(open('/root/.vp/BASELINE.json'))['stable_pass']
pkgs = {x.split('::')[0] for x in passed | failed}
want = [t for t in base if t.split('::')[0] in pkgs] if sys.argv[1:] else base
missing = [t for t in want if t not in passed]
print(f'baseline: {len(want)} expected, {len(want)-len(missing)} passed, {len(missing)} missing; other failures: {sorted(failed - set(base))}')
for t in missing: print('  MISSING', t)
sys.exit(1 if missing else 0)
