module verifsyn

go 1.25

require (
	github.com/256dpi/gomqtt v0.0.0
	verifharness v0.0.0
)

require (
	github.com/256dpi/mercury v0.2.0 // indirect
	github.com/gorilla/websocket v1.4.1 // indirect
	github.com/jpillora/backoff v0.0.0-20170918002102-8eab2debe79d // indirect
	gopkg.in/tomb.v2 v2.0.0-20161208151619-d5d1b5820637 // indirect
)

replace github.com/256dpi/gomqtt => /repo

replace verifharness => ../go
