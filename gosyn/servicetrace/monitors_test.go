package servicetrace

import (
	"fmt"
	"sort"
	"strings"
	"time"

	"github.com/256dpi/gomqtt/packet"

	"verifharness/lib/out"
	"verifharness/lib/wire"
)

// The monitors judge the recorded history of a case (stimuli and observations of the real
// service) against the text of C17 / the client clauses of C15 with their own bookkeeping; the
// Lean model is not consulted.
//
//   stop-hangs                    Stop did not return (world_test.go, awaitStop)
//   stop-hangs-disconnect-timeout-0   the same with DisconnectTimeout = 0 (separate cause)
//   never-reconnects-connect-unsendable   the same, when the last attempt could not write its CONNECT (row 9)
//   never-reconnects              started, not stopping, no healthy connection, and no Dial for longer than
//                                 ConnectTimeout + ResubscribeTimeout + MaxReconnectDelay
//   restart-fails                 Start after a completed Stop returned false / did not dial
//   resubscribe-wrong             the SUBSCRIBE after a reconnect is not exactly the set resulting from the
//                                 subscribe / unsubscribe commands carried out so far, sorted by topic
//   resubscribe-missing           … or a command was sent before it
//   command-order                 commands are not written in the order issued / written twice / invented
//   command-stuck                 online and idle, but commands are still queued
//   future-pending-after-stop-queued      Stop(true) returned and the future of a command that was still queued is pending
//   future-pending-after-stop-dispatched  … of a command that had been handed to a client
//   future-not-completed-by-ack   the acknowledgement reached a live, established connection and the future is
//                                 still pending afterwards
//   future-completed-without-ack  a future completed although no matching acknowledgement had arrived
//   future-cancelled-by-reconnect a future of a written command was cancelled without Stop(true), a rejected
//                                 subscription, a failed write or its packet id being taken by a later packet
//   future-cancelled-while-queued a queued command's future was cancelled although no client call failed and no
//                                 Stop(true) was called after the command had been issued
//   inbound-order                 MessageCallback saw messages of one QoS out of arrival order / twice

type cmdTrack struct {
	c        *cmdRec
	handled  bool
	written  bool // packet written successfully
	failed   bool // the client call failed (future cancelled by the dispatcher)
	id       packet.ID
	conn     int
	acked    bool // the acknowledgement reached a usable connection (and the client had time to process it)
	ackSeen  bool // a matching acknowledgement was handed to the current connection at all
	displaced bool // a later packet took the same packet id (the id counter restarts with a clean session)
	ackConn  int
	rejected bool
	tSent    int64
}

func subsKey(s []packet.Subscription) string {
	var l []string
	for _, x := range s {
		l = append(l, fmt.Sprintf("%s:%d", wire.HxS(x.Topic), x.QOS))
	}
	return strings.Join(l, ",")
}

func (w *World) hitOnce(seen map[string]bool, kind, detail string) {
	if seen[kind] {
		return
	}
	seen[kind] = true
	w.hit(kind, detail)
}

var monSeen = map[*World]map[string]bool{}

func (w *World) runMonitors() {
	seen := monSeen[w]
	if seen == nil {
		seen = map[string]bool{}
		monSeen[w] = seen
	}
	w.mu.Lock()
	hist := append([]hev{}, w.hist...)
	w.mu.Unlock()

	bound := (w.tm.connTO + w.tm.resubTO + w.tm.maxD + time.Second).Milliseconds()
	clean := w.cfg.CleanSession
	validate := w.cfg.ValidateSubs
	resubOn := w.svc.ResubscribeAllSubscriptions

	var issued []*cmdTrack           // accepted into the queue, in order
	byN := map[int]*cmdTrack{}       // by command number
	handled := 0                     // issued[:handled] have left the queue
	expected := map[string]packet.QOS{} // subscriptions resulting from the commands carried out so far
	awaitResub := false
	resubID, resubConn := packet.ID(0), 0
	resubOutstanding := false
	started, stopping := false, false
	healthy := false // the current connection is established and nothing has failed on it
	curConn := 0
	established := map[int]bool{}
	lastProgress := int64(0)
	lastSeq := [3]int{}
	stopClearAt := map[int]bool{} // times (ms) at which a Stop(true) returned
	var lastStopRet *hev
	expectDial := int64(-1)
	lastPlan := ""

	now := int64(0)
	// acknowledgements that reached a connection which has to stay usable a little longer before
	// the monitor may insist that the client has processed them (concurrent mode)
	type cand struct {
		t    *cmdTrack
		at   int64
		conn int
		rej  bool
	}
	var cands []cand
	unhealthy := func() {
		if healthy {
			lastProgress = now // the idle period starts when the connection stops being usable
		}
		healthy = false
		cands = nil
	}
	ack := func(e hev, live, rej bool, match func(*cmdTrack) bool) {
		if !established[e.conn] {
			return
		}
		for _, t := range issued {
			if t.written && !t.acked && match(t) {
				t.ackSeen = true
				if rej {
					t.rejected = true // the future is cancelled by the client whether or not the connection lives on
				}
				if !live {
					continue
				}
				if w.concurrent {
					cands = append(cands, cand{t: t, at: e.t, conn: e.conn, rej: rej})
				} else {
					t.acked, t.ackConn, t.rejected = true, e.conn, rej
				}
			}
		}
	}
	confirm := func(t int64) {
		var rest []cand
		for _, c := range cands {
			if t > c.at+1 && healthy && curConn == c.conn {
				c.t.acked, c.t.ackConn, c.t.rejected = true, c.conn, c.rej
			} else {
				rest = append(rest, c)
			}
		}
		cands = rest
	}
	applyCmd := func(t *cmdTrack) {
		switch t.c.kind {
		case "sub":
			for _, s := range t.c.subs {
				expected[s.Topic] = s.QOS
			}
		case "unsub":
			for _, tp := range t.c.topics {
				delete(expected, tp)
			}
		}
	}
	nextCmd := func(e hev, what string) *cmdTrack {
		if handled >= len(issued) {
			w.hitOnce(seen, "command-order", fmt.Sprintf("@%d %s: the service wrote a command packet although no issued command is outstanding", e.t, what))
			return nil
		}
		t := issued[handled]
		handled++
		t.handled = true
		applyCmd(t)
		return t
	}
	checkIdle := func(t int64) {
		if started && !stopping && !healthy && t-lastProgress > bound {
			kind := "never-reconnects"
			if lastPlan == "sendfail" {
				kind = "never-reconnects-connect-unsendable" // the last attempt could not write its CONNECT (row 9)
			}
			w.hitOnce(seen, kind, fmt.Sprintf("@%d: started, no usable connection since @%d and no new connection attempt for more than %d ms", t, lastProgress, bound))
		}
	}

	busyAtStartCall := false
	for i := range hist {
		e := hist[i]
		now = e.t
		checkIdle(e.t)
		confirm(e.t)
		switch e.kind {
		case "start-call":
			if !started && !stopping {
				expectDial = e.t // the supervisor dials at once
			}
			// a Start that overlaps a Stop of another goroutine may run before it (the order of the two calls in the history
			// is the order in which the goroutines were launched): false is then the truthful answer
			busyAtStartCall = started || stopping
		case "start":
			if !started && !stopping && !e.b && !busyAtStartCall {
				w.hitOnce(seen, "restart-fails", fmt.Sprintf("@%d: Start returned false although the service was stopped", e.t))
			}
			if e.b {
				started = true
				lastProgress = e.t
			} else {
				expectDial = -1
			}
		case "stop-call":
			if started {
				stopping = true
				started = false
			}
		case "stop-ret":
			stopping = false
			unhealthy()
			if e.b {
				ee := e
				lastStopRet = &ee
			}
		case "stop-state":
			// recorded right after a Stop returned: e.n = queue length, e.b = clear
			handled = len(issued) - e.n
			if handled < 0 {
				handled = 0
			}
			if e.b {
				stopClearAt[int(e.t)] = true
			}
		case "call":
			// the command is in the queue as soon as the call has sent it; a call that gives up
			// (QueueTimeout) is taken back at its `ret`
			byN[e.n] = &cmdTrack{c: e.cmd}
			issued = append(issued, byN[e.n])
		case "ret":
			if !e.b && len(issued) > 0 && issued[len(issued)-1] == byN[e.n] {
				issued = issued[:len(issued)-1]
			}
		case "dial":
			lastPlan = e.arg
			lastProgress = e.t
			if expectDial >= 0 {
				expectDial = -1
			}
			curConn = e.conn
			healthy = false
			awaitResub, resubOutstanding = false, false
			if e.arg != "ok" {
				curConn = 0
			}
		case "online":
			established[curConn] = true
			healthy = true
			awaitResub = resubOn && len(expected) > 0
		case "sent", "sendfail":
			ok := e.kind == "sent"
			if !ok {
				unhealthy()
			}
			if id, has := packet.GetID(e.pkt); has { // (the future is stored before the packet is written)
				for _, t := range issued {
					if t.written && t.id == id && t.conn != e.conn {
						t.displaced = true
					}
				}
			}
			switch p := e.pkt.(type) {
			case *packet.Subscribe:
				if awaitResub {
					awaitResub = false
					var want []packet.Subscription
					for tp, q := range expected {
						want = append(want, packet.Subscription{Topic: tp, QOS: q})
					}
					sort.Slice(want, func(a, b int) bool { return want[a].Topic < want[b].Topic })
					if subsKey(want) != subsKey(p.Subscriptions) {
						w.hitOnce(seen, "resubscribe-wrong", fmt.Sprintf("@%d connection %d: resubscribed %s, the commands carried out so far result in %s", e.t, e.conn, subsKey(p.Subscriptions), subsKey(want)))
					}
					if ok {
						resubID, resubConn, resubOutstanding = p.ID, e.conn, true
					}
					continue
				}
				if !ok {
					continue // accounted for at the `error subscribe` that follows
				}
				if t := nextCmd(e, "SUBSCRIBE"); t != nil {
					if t.c.kind != "sub" || subsKey(t.c.subs) != subsKey(p.Subscriptions) {
						w.hitOnce(seen, "command-order", fmt.Sprintf("@%d: wrote SUBSCRIBE %s, the next issued command is #%d (%s)", e.t, subsKey(p.Subscriptions), t.c.n, t.c.kind))
					}
					t.written, t.id, t.conn, t.tSent = true, p.ID, e.conn, e.t
				}
			case *packet.Unsubscribe:
				if awaitResub {
					w.hitOnce(seen, "resubscribe-missing", fmt.Sprintf("@%d connection %d: a command was written before the subscriptions were re-established", e.t, e.conn))
				}
				if !ok {
					continue
				}
				if t := nextCmd(e, "UNSUBSCRIBE"); t != nil {
					if t.c.kind != "unsub" || strings.Join(t.c.topics, ",") != strings.Join(p.Topics, ",") {
						w.hitOnce(seen, "command-order", fmt.Sprintf("@%d: wrote UNSUBSCRIBE %v, the next issued command is #%d (%s)", e.t, p.Topics, t.c.n, t.c.kind))
					}
					t.written, t.id, t.conn, t.tSent = true, p.ID, e.conn, e.t
				}
			case *packet.Publish:
				if awaitResub {
					w.hitOnce(seen, "resubscribe-missing", fmt.Sprintf("@%d connection %d: a command was written before the subscriptions were re-established", e.t, e.conn))
				}
				if !ok {
					continue
				}
				if t := nextCmd(e, "PUBLISH"); t != nil {
					if t.c.kind != "pub" || string(t.c.msg.Payload) != string(p.Message.Payload) {
						w.hitOnce(seen, "command-order", fmt.Sprintf("@%d: wrote PUBLISH %q, the next issued command is #%d (%s)", e.t, p.Message.Payload, t.c.n, t.c.kind))
					}
					t.written, t.id, t.conn, t.tSent = true, p.ID, e.conn, e.t
					if p.Message.QOS == 0 {
						t.acked, t.ackSeen = true, true // nothing to wait for
					}
				}
			}
		case "error":
			switch e.arg {
			case "subscribe", "unsubscribe", "publish":
				// the client call of the command at the head failed; the dispatcher had taken it
				if t := nextCmd(e, "error "+e.arg); t != nil {
					t.failed = true
					want := map[string]string{"subscribe": "sub", "unsubscribe": "unsub", "publish": "pub"}[e.arg]
					if t.c.kind != want {
						w.hitOnce(seen, "command-order", fmt.Sprintf("@%d: a %s command failed, the next issued command is #%d (%s)", e.t, e.arg, t.c.n, t.c.kind))
					}
				}
				unhealthy()
			case "resubscribe":
				awaitResub, resubOutstanding = false, false
				unhealthy()
			default:
				unhealthy()
			}
		case "closed":
			if e.conn == curConn {
				unhealthy()
			}
		case "drop":
			if e.conn == curConn {
				unhealthy()
			}
		case "psendfail":
			if e.conn == curConn {
				unhealthy()
			}
		case "recv":
			live := e.conn == curConn && established[e.conn] && healthy
			switch p := e.pkt.(type) {
			case *packet.Connack:
				if p.ReturnCode != packet.ConnectionAccepted {
					unhealthy()
				}
			case *packet.Suback:
				rej := false
				for _, c := range p.ReturnCodes {
					if c == packet.QOSFailure {
						rej = true
					}
				}
				if resubOutstanding && e.conn == resubConn && p.ID == resubID {
					resubOutstanding = false
				} else {
					ack(e, live, rej && validate, func(t *cmdTrack) bool { return t.c.kind == "sub" && t.id == p.ID && t.conn == e.conn })
				}
				if rej && validate && e.conn == curConn {
					unhealthy() // a rejected subscription is a failure: the service has to reconnect
				}
			case *packet.Unsuback:
				ack(e, live, false, func(t *cmdTrack) bool { return t.c.kind == "unsub" && t.id == p.ID && t.conn == e.conn })
			case *packet.Puback:
				ack(e, live, false, func(t *cmdTrack) bool {
					return t.c.kind == "pub" && t.c.msg.QOS == 1 && t.id == p.ID && (t.conn == e.conn || !clean)
				})
			case *packet.Pubcomp:
				ack(e, live, false, func(t *cmdTrack) bool {
					return t.c.kind == "pub" && t.c.msg.QOS == 2 && t.id == p.ID && (t.conn == e.conn || !clean)
				})
			}
		case "msg":
			m := e.pkt.(*packet.Publish).Message
			pl := strings.TrimPrefix(string(m.Payload), "bad-")
			var q, n int
			if _, err := fmt.Sscanf(pl, "q%d-%d", &q, &n); err == nil && q >= 0 && q < 3 {
				if n <= lastSeq[q] {
					w.hitOnce(seen, "inbound-order", fmt.Sprintf("@%d: MessageCallback got QoS %d message #%d after #%d", e.t, q, n, lastSeq[q]))
				}
				lastSeq[q] = n
			}
			if strings.HasPrefix(string(m.Payload), "bad") {
				unhealthy()
			}
		case "settle":
			// e.n = queue length at quiescence
			if healthy && !awaitResub && !resubOutstanding && started && !stopping && e.n > 0 && established[curConn] {
				w.hitOnce(seen, "command-stuck", fmt.Sprintf("@%d: connection %d is established and idle, %d command(s) are still queued", e.t, curConn, e.n))
			}
			if expectDial >= 0 && e.t >= expectDial {
				w.hitOnce(seen, "restart-fails", fmt.Sprintf("@%d: Start was called at @%d and the service has not tried to connect", e.t, expectDial))
				expectDial = -1
			}
		}
	}
	if len(hist) > 0 {
		checkIdle(hist[len(hist)-1].t)
	}
	_ = lastStopRet

	// futures
	for _, c := range w.cmds {
		c.mu.Lock()
		st := c.state
		c.mu.Unlock()
		t := byN[c.n]
		if t == nil {
			continue
		}
		// Stop(true) returned after this command had been issued
		if st == "p" && w.stopClearsAfter(c) {
			if !t.handled {
				w.hitOnce(seen, "future-pending-after-stop-queued", fmt.Sprintf("command #%d (%s) was still queued when Stop(true) was called; its future is pending after Stop(true) returned", c.n, c.kind))
			} else {
				w.hitOnce(seen, "future-pending-after-stop-dispatched", fmt.Sprintf("command #%d (%s, written with packet id %d to connection %d) is still pending after Stop(true) returned", c.n, c.kind, t.id, t.conn))
			}
		}
		if st == "p" && t.acked && !t.rejected {
			w.hitOnce(seen, "future-not-completed-by-ack", fmt.Sprintf("command #%d (%s, packet id %d): the acknowledgement arrived on the established connection %d and the future is still pending", c.n, c.kind, t.id, t.ackConn))
		}
		if st == "c" && !t.ackSeen {
			w.hitOnce(seen, "future-completed-without-ack", fmt.Sprintf("command #%d (%s, packet id %d) completed, no matching acknowledgement had arrived", c.n, c.kind, t.id))
		}
		if st == "x" && c.issued && !t.written && !t.failed && !w.cancelledByStop(c) {
			w.hitOnce(seen, "future-cancelled-while-queued", fmt.Sprintf("command #%d (%s) was accepted into the queue and its future was cancelled although it was never handed to a client and no Stop(true) was called after it had been issued", c.n, c.kind))
		}
		if st == "x" && t.written && !t.rejected && !t.displaced && c.issued && !w.cancelledByStop(c) && !(t.c.kind == "pub" && t.c.msg.QOS == 0) {
			w.hitOnce(seen, "future-cancelled-by-reconnect", fmt.Sprintf("command #%d (%s) was written to connection %d and its future was cancelled although the service was never stopped with clearFutures", c.n, c.kind, t.conn))
		}
	}
}

// stopClearsAfter: a Stop(true) was called after the command had been issued, and it returned
func (w *World) stopClearsAfter(c *cmdRec) bool {
	w.mu.Lock()
	defer w.mu.Unlock()
	calls := map[int]bool{}
	for _, e := range w.hist {
		if e.kind == "stop-call" && e.b && e.n > c.stopsAfter {
			calls[e.n] = true
		}
		if e.kind == "stop-ret" && e.b && calls[e.n] {
			return true
		}
	}
	return false
}

// cancelledByStop: when the future was resolved, a Stop(true) called after the command had been
// issued was in progress or had returned (a Stop(true) that comes later does not explain it)
func (w *World) cancelledByStop(c *cmdRec) bool {
	w.mu.Lock()
	defer w.mu.Unlock()
	for _, e := range w.hist {
		if e.kind == "fut" && e.n == c.n {
			return false
		}
		if e.kind == "stop-call" && e.b && e.n > c.stopsAfter {
			return true
		}
	}
	return false
}

var _ = out.New
