package servicetrace

import (
	"bufio"
	"encoding/json"
	"flag"
	"fmt"
	"os"
	"os/exec"
	"path/filepath"
	"strconv"
	"strings"
	"sync/atomic"
	"testing"
	"testing/synctest"
	"time"

	"github.com/256dpi/gomqtt/packet"

	"verifharness/lib/gen"
	"verifharness/lib/out"
)

var (
	fProp   = flag.String("prop", "C17", "property")
	fSeed   = flag.Uint64("seed", 1, "seed")
	fTier   = flag.String("tier", "quick", "quick|thorough")
	fOut    = flag.String("out", "", "output directory")
	fShard  = flag.Int("shard", 0, "shard")
	fNShard = flag.Int("nshard", 1, "shards")
	fFixed  = flag.String("fixed", "9,15,16,17,18", "which repairs the model assumes to be present in the code (rows of DESIGN §6; - for none)")
	fChild  = flag.Bool("child", false, "internal: run cases in this process")
	fFrom   = flag.Int("from", 0, "internal: first case of this child")
	fOnly   = flag.Int("only", -1, "run a single case (debugging)")
	fMode   = flag.String("mode", "all", "all | seq | conc (debugging / stress: only the sequential or only the concurrent cases)")
)

// ---------------------------------------------------------------- scripted broker peer

// what a connection still owes / is owed (fed by fconn.Send)
type owed struct {
	connectSeen bool
	connacked   bool
	accepted    bool
	subs        []*packet.Subscribe
	unsubs      []packet.ID
	pub1        []packet.ID // QoS 1 publishes of the client awaiting PUBACK
	pub2        []packet.ID // QoS 2 publishes awaiting PUBREC
	rel2        []packet.ID // PUBREL seen (or PUBREC sent), PUBCOMP owed
	in2         []packet.ID // our QoS 2 publishes: PUBREC seen, PUBREL not yet sent
	disconnect  bool
}

var owedOf = map[*fconn]*owed{}

func (w *World) owed(c *fconn) *owed {
	w.mu.Lock()
	defer w.mu.Unlock()
	o := owedOf[c]
	if o == nil {
		o = &owed{}
		owedOf[c] = o
	}
	return o
}

func hasID(l []packet.ID, id packet.ID) bool {
	for _, x := range l {
		if x == id {
			return true
		}
	}
	return false
}

func delID(l []packet.ID, id packet.ID) []packet.ID {
	var r []packet.ID
	for _, x := range l {
		if x != id {
			r = append(r, x)
		}
	}
	return r
}

// delivered is called (under the conn lock) for every packet the client wrote successfully
func (w *World) delivered(c *fconn, p packet.Generic) {
	o := w.owed(c)
	w.mu.Lock()
	defer w.mu.Unlock()
	switch x := p.(type) {
	case *packet.Connect:
		o.connectSeen = true
	case *packet.Subscribe:
		o.subs = append(o.subs, x)
	case *packet.Unsubscribe:
		o.unsubs = append(o.unsubs, x.ID)
	case *packet.Publish:
		if x.Message.QOS == 1 && !hasID(o.pub1, x.ID) {
			o.pub1 = append(o.pub1, x.ID)
		}
		if x.Message.QOS == 2 && !hasID(o.pub2, x.ID) && !hasID(o.rel2, x.ID) {
			o.pub2 = append(o.pub2, x.ID)
		}
	case *packet.Pubrel:
		o.pub2 = delID(o.pub2, x.ID)
		if !hasID(o.rel2, x.ID) {
			o.rel2 = append(o.rel2, x.ID)
		}
	case *packet.Pubrec:
		if !hasID(o.in2, x.ID) {
			o.in2 = append(o.in2, x.ID)
		}
	case *packet.Disconnect:
		o.disconnect = true
	}
}

// usable: the current connection exists and neither side has closed it
func (w *World) usable() (*fconn, *owed, bool) {
	w.mu.Lock()
	c := w.cur
	w.mu.Unlock()
	if c == nil || !c.alive() {
		return nil, nil, false
	}
	return c, w.owed(c), true
}

// Connack answers the CONNECT of the current connection
func (w *World) Connack(sp bool, code packet.ConnackCode) bool {
	c, o, ok := w.usable()
	if !ok || !o.connectSeen || o.connacked {
		return false
	}
	o.connacked, o.accepted = true, code == packet.ConnectionAccepted
	w.Recv(c.id, &packet.Connack{SessionPresent: sp, ReturnCode: code})
	return true
}

// Respond answers one outstanding request of the current connection; pick selects which
// (0 = oldest first); reject makes a SUBACK carry 0x80 for its first filter
func (w *World) Respond(pick int, reject bool) bool {
	c, o, ok := w.usable()
	if !ok || !o.accepted {
		return false
	}
	type act func()
	var acts []act
	if len(o.subs) > 0 {
		acts = append(acts, func() {
			s := o.subs[0]
			o.subs = o.subs[1:]
			codes := make([]packet.QOS, len(s.Subscriptions))
			for i, x := range s.Subscriptions {
				codes[i] = x.QOS
			}
			if reject && len(codes) > 0 {
				codes[0] = packet.QOSFailure
				w.o.Count("broker/suback-reject")
			}
			w.Recv(c.id, &packet.Suback{ID: s.ID, ReturnCodes: codes})
		})
	}
	if len(o.unsubs) > 0 {
		acts = append(acts, func() { id := o.unsubs[0]; o.unsubs = o.unsubs[1:]; w.Recv(c.id, &packet.Unsuback{ID: id}) })
	}
	if len(o.pub1) > 0 {
		acts = append(acts, func() { id := o.pub1[0]; o.pub1 = o.pub1[1:]; w.Recv(c.id, &packet.Puback{ID: id}) })
	}
	if len(o.pub2) > 0 {
		acts = append(acts, func() {
			id := o.pub2[0]
			o.pub2 = o.pub2[1:]
			w.Recv(c.id, &packet.Pubrec{ID: id})
		})
	}
	if len(o.rel2) > 0 {
		acts = append(acts, func() { id := o.rel2[0]; o.rel2 = o.rel2[1:]; w.Recv(c.id, &packet.Pubcomp{ID: id}) })
	}
	if len(acts) == 0 {
		return false
	}
	acts[pick%len(acts)]()
	return true
}

func (w *World) RespondAll() {
	for guard := 0; guard < 200 && w.Respond(0, false); guard++ {
	}
}

// ---------------------------------------------------------------- generators

var topics = []string{"a", "a/b", "b", "c/d"}
var filters = []string{"a", "a/b", "a/+", "a/#", "#", "b", "+/d", "c/d"}

type inbound struct {
	seq  [3]int
	next packet.ID
	open []packet.ID // inbound QoS 2 ids whose PUBLISH was sent (PUBREL may follow once PUBREC is seen)
}

// Inbound sends a numbered PUBLISH to the service; the payload carries the QoS and its sequence
// number, so the order monitor needs nothing else
func (w *World) Inbound(in *inbound, qos packet.QOS, bad bool) bool {
	c, o, ok := w.usable()
	if !ok || !o.accepted {
		return false
	}
	in.seq[qos]++
	pl := fmt.Sprintf("q%d-%d", qos, in.seq[qos])
	if bad {
		pl = "bad-" + pl
	}
	p := &packet.Publish{Message: packet.Message{Topic: topics[in.seq[qos]%len(topics)], QOS: qos, Payload: []byte(pl)}}
	if qos > 0 {
		in.next++
		p.ID = 1000 + in.next
	}
	w.Recv(c.id, p)
	return true
}

// Release sends the PUBREL for the oldest inbound QoS 2 publish the client has acknowledged
func (w *World) Release() bool {
	c, o, ok := w.usable()
	if !ok || !o.accepted || len(o.in2) == 0 {
		return false
	}
	id := o.in2[0]
	o.in2 = o.in2[1:]
	w.Recv(c.id, &packet.Pubrel{ID: id})
	return true
}

func pickW(r *gen.Rng, ws []int) int {
	t := 0
	for _, x := range ws {
		t += x
	}
	if t == 0 {
		return 0
	}
	k := r.Intn(t)
	for i, x := range ws {
		if k < x {
			return i
		}
		k -= x
	}
	return 0
}

type profile struct {
	steps                                             int
	wPub, wSub, wUnsub                                int
	wAck, wAckAny, wReject, wDeny                     int
	wIn, wRel, wBad                                   int
	wDrop, wFail, wProcFail, wSleep, wLong, wPlan     int
	wStop, wNoConnack                                 int
	qos                                               []packet.QOS
}

func (w *World) randomCmd(r *gen.Rng, p profile, k int) {
	switch k {
	case 0:
		q := p.qos[r.Intn(len(p.qos))]
		n := len(w.cmds) + 1
		w.Call("pub", &packet.Message{Topic: topics[r.Intn(len(topics))], QOS: q, Payload: []byte(fmt.Sprintf("c%d", n))}, nil, nil)
	case 1:
		var subs []packet.Subscription
		for i, n := 0, 1+r.Intn(3); i < n; i++ {
			subs = append(subs, packet.Subscription{Topic: filters[r.Intn(len(filters))], QOS: packet.QOS(r.Intn(3))})
		}
		w.Call("sub", nil, subs, nil)
	default:
		var ts []string
		for i, n := 0, 1+r.Intn(2); i < n; i++ {
			ts = append(ts, filters[r.Intn(len(filters))])
		}
		w.Call("unsub", nil, nil, ts)
	}
}

// randomScript: a weighted random walk over the stimulus alphabet, one stimulus per quiescent
// point.  Combinations whose outcome depends on Go's random `select` (a Stop that is pending
// while commands are queued and the connection comes up) are left to the concurrent mode.
func randomScript(r *gen.Rng, o *out.W, prop, fixes string, cc caseCfg, p profile) {
	w := newWorld(o, prop, fixes, cc)
	in := &inbound{}
	hadSession := false
	w.Start()
	for step := 0; step < p.steps && !w.aborted; step++ {
		if w.stopping {
			// Stop is pending: let time pass; feed the connection only while nothing is queued
			// (with a persistent session no CONNACK either: the processor's retransmissions would
			// race with the supervisor's immediate Disconnect)
			if w.qlen() == 0 && r.Intn(3) == 0 {
				if !cc.clean || !w.Connack(false, packet.ConnectionAccepted) {
					w.Respond(0, false)
				}
			} else {
				w.Sleep([]time.Duration{100, 500, 2000, 6000}[r.Intn(4)] * time.Millisecond)
			}
			continue
		}
		if !w.started {
			if r.Intn(3) == 0 {
				w.randomCmd(r, p, r.Intn(3)) // commands may be issued while the service is stopped
			} else {
				w.Start()
			}
			continue
		}
		k := pickW(r, []int{p.wPub, p.wSub, p.wUnsub, p.wAck, p.wAckAny, p.wReject, p.wDeny, p.wIn, p.wRel, p.wBad, p.wDrop, p.wFail, p.wProcFail, p.wSleep, p.wLong, p.wPlan, p.wStop, p.wNoConnack})
		switch k {
		case 0, 1, 2:
			w.randomCmd(r, p, k)
		case 3:
			if !w.Connack(!cc.clean && hadSession, packet.ConnectionAccepted) {
				w.Respond(0, false)
			} else {
				hadSession = !cc.clean
			}
		case 4:
			w.Respond(r.Intn(5), false)
		case 5:
			w.Respond(0, true)
		case 6:
			w.Connack(false, packet.ConnackCode(1+r.Intn(5)))
		case 7:
			w.Inbound(in, p.qos[r.Intn(len(p.qos))], false)
		case 8:
			w.Release()
		case 9:
			w.Inbound(in, packet.QOS(r.Intn(2)), true)
		case 10:
			if c, _, ok := w.usable(); ok {
				w.Drop(c.id)
			}
		case 11:
			if c, oo, ok := w.usable(); ok && oo.accepted {
				w.FailNext(c.id)
			}
		case 12:
			if c, oo, ok := w.usable(); ok && oo.accepted {
				w.ProcFail(c.id)
				w.Inbound(in, 1, false)
			}
		case 13:
			w.Sleep([]time.Duration{10, 50, 100, 450, 1000}[r.Intn(5)] * time.Millisecond)
		case 14:
			w.Sleep([]time.Duration{5100, 7100, 12000}[r.Intn(3)] * time.Millisecond)
		case 15:
			w.Plan([]string{"ok", "ok", "refuse", "sendfail"}[r.Intn(4)])
		case 16:
			w.StopCall(r.Bool())
		case 17:
			// a connection whose CONNECT is never answered: mark it so that no CONNACK follows
			if _, oo, ok := w.usable(); ok && !oo.connacked {
				oo.connacked = true
				w.o.Count("broker/no-connack")
			}
		}
	}
	if !w.aborted {
		w.Plan("ok")
		w.finish()
	}
	o.Distinct(strings.Join(w.trace, "\n"))
	o.Sample(fmt.Sprintf("%d lines, first: %s", len(w.trace), strings.Join(w.trace[:min(len(w.trace), 8)], " ; ")))
}

// ---------------------------------------------------------------- case list, parent / child

type caseDesc struct {
	name string
	seed uint64
	run  func(r *gen.Rng, o *out.W)
}

func buildCases(prop string, seed uint64, tier string, shard, nshard int, fixes string) []caseDesc {
	r := gen.New(seed*1000003 + uint64(shard) + 171717)
	n := 400
	if tier == "thorough" {
		n = 32000
	}
	n = n/nshard + 1
	all := []packet.QOS{0, 1, 2}
	var cs []caseDesc
	add := func(name string, f func(r *gen.Rng, o *out.W)) {
		seed := r.U64()
		conc := name == "concurrent" || name == "start during stop"
		if (*fMode == "seq" && conc) || (*fMode == "conc" && !conc) {
			return
		}
		cs = append(cs, caseDesc{name: name, seed: seed, run: f})
	}
	if shard == 0 {
		for _, sc := range scenarios {
			sc := sc
			add("scenario "+sc.name, func(r *gen.Rng, o *out.W) { sc.run(o, prop, fixes) })
		}
	}
	for i := 0; i < n; i++ {
		add("random failures", func(r *gen.Rng, o *out.W) {
			cc := caseCfg{cap: r.Pick(1, 2, 3, 100, 100), resub: r.Intn(6) != 0, validate: r.Intn(4) != 0, clean: r.Bool(), tm: defaultTiming}
			if r.Intn(8) == 0 {
				cc.tm.discTO = 0 // "do not wait for outstanding acknowledgements when stopping"
			}
			p := profile{steps: 25 + r.Intn(50), wPub: 8, wSub: 5, wUnsub: 3, wAck: 14, wAckAny: 3, wReject: 1, wDeny: 1, wIn: 6, wRel: 4, wBad: 1,
				wDrop: 3, wFail: 2, wProcFail: 1, wSleep: 8, wLong: 2, wPlan: 3, wStop: 2, wNoConnack: 1, qos: all}
			randomScript(r, o, prop, fixes, cc, p)
		})
		if i%4 == 0 {
			add("concurrent", func(r *gen.Rng, o *out.W) { concurrentCase(r, o, prop, fixes) })
		}
		if i%2 == 1 {
			add("start during stop", func(r *gen.Rng, o *out.W) { overlapCase(r, o, prop, fixes) })
		}
		add("random offline queueing", func(r *gen.Rng, o *out.W) {
			cc := caseCfg{cap: r.Pick(2, 4, 100), resub: true, validate: true, clean: r.Intn(3) == 0, tm: defaultTiming}
			p := profile{steps: 25 + r.Intn(40), wPub: 12, wSub: 8, wUnsub: 5, wAck: 8, wAckAny: 1, wDrop: 4, wFail: 2, wSleep: 6, wLong: 1, wPlan: 4, wStop: 3, wNoConnack: 1, qos: all}
			randomScript(r, o, prop, fixes, cc, p)
		})
	}
	return cs
}

func runCase(t *testing.T, o *out.W, c caseDesc) {
	o.Case(c.name)
	r := gen.New(c.seed)
	synctest.Test(t, func(t *testing.T) { c.run(r, o) })
}

func TestHarness(t *testing.T) {
	if *fOut == "" {
		t.Skip("no -out")
	}
	cases := buildCases(*fProp, *fSeed, *fTier, *fShard, *fNShard, *fFixed)
	if *fChild {
		o := out.New(*fOut)
		distinct := &strings.Builder{}
		abortProcess = func(o *out.W) {
			o.Close()
			os.Exit(3)
		}
		// real-time guard (outside every bubble): a case that does not end within minutes of wall
		// clock time has stalled the fake clock (e.g. a goroutine parked on a sync.Mutex whose holder
		// waits for a timer) — report instead of hanging until the check's timeout
		var caseNo, caseSince atomic.Int64
		caseSince.Store(time.Now().UnixNano())
		go func() {
			for {
				time.Sleep(time.Second)
				if time.Duration(time.Now().UnixNano()-caseSince.Load()) > 150*time.Second {
					fmt.Printf("harness: case %d (%s) does not end: the fake clock is stalled\n", caseNo.Load(), cases[caseNo.Load()].name)
					os.Exit(4)
				}
			}
		}()
		for i := *fFrom; i < len(cases); i++ {
			if *fOnly >= 0 && i != *fOnly {
				continue
			}
			os.WriteFile(filepath.Join(*fOut, "current"), []byte(strconv.Itoa(i)), 0o644)
			caseNo.Store(int64(i))
			caseSince.Store(time.Now().UnixNano())
			runCase(t, o, cases[i])
		}
		_ = distinct
		o.Close()
		return
	}
	// parent: run children, merge their output
	o := out.New(*fOut)
	defer o.Close()
	exe, err := os.Executable()
	if err != nil {
		t.Fatal(err)
	}
	next, round, stuck := 0, 0, 0
	for next < len(cases) {
		dir := filepath.Join(*fOut, fmt.Sprintf("child-%d", round))
		round++
		cmd := exec.Command(exe, "-test.run", "^TestHarness$", "-child", "-from", strconv.Itoa(next), "-only", strconv.Itoa(*fOnly),
			"-prop", *fProp, "-seed", fmt.Sprint(*fSeed), "-tier", *fTier, "-out", dir, "-shard", strconv.Itoa(*fShard), "-nshard", strconv.Itoa(*fNShard), "-fixed", *fFixed, "-mode", *fMode)
		log, err := cmd.CombinedOutput()
		code := 0
		if err != nil {
			code = -1
			if ee, ok := err.(*exec.ExitError); ok {
				code = ee.ExitCode()
			}
		}
		cur := next
		if b, e := os.ReadFile(filepath.Join(dir, "current")); e == nil {
			cur, _ = strconv.Atoi(strings.TrimSpace(string(b)))
		}
		mergeChild(o, dir)
		os.RemoveAll(dir)
		switch code {
		case 0:
			next = len(cases)
		case 3:
			o.Count("child-restarts")
			next = cur + 1 // the case that could not be torn down has been reported; go on behind it
		case 4:
			// the case never came to rest: goroutines of the service spin (a retry loop without a wait) or are parked for
			// good on a mutex — Stop cannot return, nothing else makes progress.  A concrete failing schedule: report it.
			name := cases[min(cur, len(cases)-1)].name
			o.Monitor(*fProp, "service-stuck", fmt.Sprintf("case %d (%s) made no progress for 150 s of real time: the service's goroutines spin or are blocked for good (the fake clock cannot advance)", cur, name),
				[]string{fmt.Sprintf("servicetrace -prop %s -seed %d -tier %s -shard %d -nshard %d -only %d", *fProp, *fSeed, *fTier, *fShard, *fNShard, cur), "# " + name})
			stuck++
			next = cur + 1
			if stuck >= 2 {
				next = len(cases) // every further case would cost the same wait
			}
		default:
			// the code under test crashed the process
			fmt.Printf("%s\n", log)
			t.Fatalf("child exited with %d in case %d (%s)", code, cur, cases[min(cur, len(cases)-1)].name)
		}
	}
}

// mergeChild copies what a child process wrote into the parent's output
func mergeChild(o *out.W, dir string) {
	fo, e1 := os.Open(filepath.Join(dir, "ops.txt"))
	fi, e2 := os.Open(filepath.Join(dir, "impl.txt"))
	if e1 == nil && e2 == nil {
		so, si := bufio.NewScanner(fo), bufio.NewScanner(fi)
		so.Buffer(make([]byte, 1<<20), 1<<26)
		si.Buffer(make([]byte, 1<<20), 1<<26)
		for so.Scan() && si.Scan() {
			l := so.Text()
			if strings.HasPrefix(l, "# case ") {
				f := strings.SplitN(l, " ", 4)
				o.Case(f[len(f)-1])
			} else {
				o.Op(l, si.Text())
			}
		}
		fo.Close()
		fi.Close()
	}
	if fm, err := os.Open(filepath.Join(dir, "monitor.jsonl")); err == nil {
		sm := bufio.NewScanner(fm)
		sm.Buffer(make([]byte, 1<<20), 1<<26)
		for sm.Scan() {
			var h struct {
				Property, Kind, Detail string
				Replay                 []string
			}
			if json.Unmarshal(sm.Bytes(), &h) == nil {
				o.Monitor(h.Property, h.Kind, h.Detail, h.Replay)
			}
		}
		fm.Close()
	}
	if b, err := os.ReadFile(filepath.Join(dir, "stats.json")); err == nil {
		var st struct {
			Distribution map[string]int
			Samples      []string
			Distinct     int `json:"distinct_nontrivial"`
		}
		if json.Unmarshal(b, &st) == nil {
			for k, v := range st.Distribution {
				o.Dist[k] += v
			}
			for _, s := range st.Samples {
				o.Sample(s)
			}
			for i := 0; i < st.Distinct; i++ {
				o.Distinct(fmt.Sprintf("%s#%d", dir, i))
			}
		}
	}
}
