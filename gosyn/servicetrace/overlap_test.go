package servicetrace

import (
	"fmt"
	"runtime"
	"strings"
	"testing/synctest"
	"time"

	"github.com/256dpi/gomqtt/packet"

	"verifharness/lib/gen"
	"verifharness/lib/out"
	"verifharness/lib/wire"
)

// The overlap schedules: `Start` is called from a second goroutine while a `Stop` of another
// goroutine is still waiting for the supervisor — at the moments where that wait is long:
//
//	ack      online, a QoS 1 publish is unacknowledged (Stop sits in Disconnect → Store.Await)
//	connack  the supervisor waits for the CONNACK
//	dial     the supervisor is inside Dial
//	backoff  the supervisor sleeps between two attempts (Stop and Start are released together)
//
// followed by what makes a wrong outcome visible: a publish on the (re)started service, a
// connection loss, a reconnect with the session resumed and the late acknowledgement; then
// Stop(true).  Judged by the monitors only (like the concurrent mode).
//
// On the unchanged tree `Start` has to wait for Service.mutex until the Stop has returned.  A
// goroutine waiting for a sync.Mutex is not "durably blocked" for synctest, so the fake clock
// stands still during that window: the harness therefore ends the supervisor's wait with an
// event that needs no time to pass (the outstanding PUBACK, the CONNACK, the release of the
// held Dial) and itself waits with runtime.Gosched instead of sleeping.  A Stop that still does
// not return is caught by the fake-time watchdog (everything is durably blocked then), a real
// hang of the process by the real-time guard in TestHarness.

// push hands a packet of the scripted broker to a connection (no model line)
func (w *World) push(c *fconn, p packet.Generic) {
	if c == nil || !c.alive() {
		return
	}
	w.record(hev{kind: "recv", conn: c.id, pkt: clonePacket(p)})
	w.note("recv %d %s", c.id, wire.ShowPacket(p))
	c.in <- clonePacket(p)
}

// spin yields until cond holds (at most n times); it does not need the clock
func spin(n int, cond func() bool) bool {
	for i := 0; i < n; i++ {
		if cond() {
			return true
		}
		runtime.Gosched()
	}
	return cond()
}

func isDone(ch chan bool) func() bool {
	return func() bool {
		select {
		case v := <-ch:
			ch <- v
			return true
		default:
			return false
		}
	}
}

// goStop / goStart: API calls that do NOT go through the harness lock
func (w *World) goStop(clear bool) chan bool {
	w.mu.Lock()
	w.nstop++
	n := w.nstop
	w.mu.Unlock()
	w.record(hev{kind: "stop-call", b: clear, n: n})
	w.note("stop(%v) [goroutine A]", clear)
	done := make(chan bool, 1)
	go func() {
		r := w.svc.Stop(clear)
		w.record(hev{kind: "stop-ret", b: r, n: n})
		w.record(hev{kind: "stop-state", n: w.qlen(), b: clear})
		w.note("stop returned %v", r)
		done <- r
	}()
	return done
}

func (w *World) goStart() chan bool {
	w.record(hev{kind: "start-call"})
	w.note("start [goroutine B]")
	done := make(chan bool, 1)
	go func() {
		r := w.svc.Start(w.cfg)
		w.record(hev{kind: "start", b: r})
		w.note("start -> %v", r)
		done <- r
	}()
	return done
}

// await waits for an API call under the fake-time watchdog
func (w *World) await(ch chan bool, what string) {
	select {
	case <-ch:
	case <-time.After(w.stopBudget()):
		w.runMonitors()
		w.hit("stop-hangs", fmt.Sprintf("%s did not return within %v of fake time after Start was called from a second goroutine while it was waiting", what, w.stopBudget()))
		w.abort()
	}
}

func (w *World) connOwed(id int) (*fconn, *owed) {
	c := w.conn(id)
	if c == nil {
		return nil, nil
	}
	return c, w.owed(c)
}

// connackCur answers the CONNECT of the newest connection, if it is waiting for one
func (w *World) connackCur(sp bool) {
	c, o, ok := w.usable()
	if !ok {
		return
	}
	w.mu.Lock()
	need := o.connectSeen && !o.connacked
	if need {
		o.connacked, o.accepted = true, true
	}
	w.mu.Unlock()
	if need {
		w.push(c, &packet.Connack{SessionPresent: sp})
	}
}

// ackAllCur acknowledges everything the newest connection is owed
func (w *World) ackAllCur() {
	for guard := 0; guard < 50; guard++ {
		c, o, ok := w.usable()
		if !ok {
			return
		}
		w.mu.Lock()
		var p packet.Generic
		switch {
		case len(o.subs) > 0:
			s := o.subs[0]
			o.subs = o.subs[1:]
			codes := make([]packet.QOS, len(s.Subscriptions))
			for i, x := range s.Subscriptions {
				codes[i] = x.QOS
			}
			p = &packet.Suback{ID: s.ID, ReturnCodes: codes}
		case len(o.pub1) > 0:
			p = &packet.Puback{ID: o.pub1[0]}
			o.pub1 = o.pub1[1:]
		}
		w.mu.Unlock()
		if p == nil {
			return
		}
		w.push(c, p)
		synctest.Wait()
	}
}

var overlapMoments = []string{"ack", "connack", "dial", "backoff"}

func overlapCase(r *gen.Rng, o *out.W, prop, fixes string) {
	moment := overlapMoments[r.Intn(len(overlapMoments))]
	clear := r.Intn(3) != 0
	if moment == "ack" {
		clear = true
	}
	withSub := r.Bool()
	cc := caseCfg{cap: 100, resub: true, validate: true, clean: false, tm: defaultTiming}
	w := newWorld(o, prop, fixes, cc)
	w.concurrent = true
	w.trace = append(w.trace, fmt.Sprintf("# overlap mode: Start from goroutine B while Stop(%v) of goroutine A waits for the supervisor (moment: %s); history as it happened", clear, moment))
	o.Count("overlap/" + moment)

	var stopDone, startDone chan bool
	switch moment {
	case "ack":
		w.apiStart()
		synctest.Wait()
		w.connackCur(false)
		synctest.Wait()
		if withSub {
			w.apiCall("sub", nil, []packet.Subscription{{Topic: "a/#", QOS: 1}}, nil)
			synctest.Wait()
			w.ackAllCur()
		}
		w.apiCall("pub", &packet.Message{Topic: "a", QOS: 1}, nil, nil)
		synctest.Wait()
		c1, o1, _ := w.usable()
		stopDone = w.goStop(clear)
		synctest.Wait() // Stop waits: the supervisor is in Disconnect → Await(DisconnectTimeout)
		startDone = w.goStart()
		if spin(20000, isDone(startDone)) {
			// Start got in although the Stop is still in progress; what is issued now belongs to the new run
			w.directCall("pub", &packet.Message{Topic: "b", QOS: 1})
		}
		// the outstanding acknowledgement arrives: the old supervisor can finish without waiting
		w.mu.Lock()
		var id packet.ID
		if len(o1.pub1) > 0 {
			id = o1.pub1[0]
			o1.pub1 = o1.pub1[1:]
		}
		w.mu.Unlock()
		w.push(c1, &packet.Puback{ID: id})
	case "connack":
		w.apiStart()
		synctest.Wait() // CONNECT written, supervisor waits for the CONNACK
		stopDone = w.goStop(clear)
		synctest.Wait()
		startDone = w.goStart()
		spin(20000, isDone(startDone))
		if c1, o1 := w.connOwed(1); c1 != nil {
			w.mu.Lock()
			o1.connacked, o1.accepted = true, true
			w.mu.Unlock()
			w.push(c1, &packet.Connack{})
		}
	case "dial":
		hold := make(chan struct{})
		w.mu.Lock()
		w.dialHold = hold
		w.mu.Unlock()
		w.apiStart()
		synctest.Wait() // the supervisor is inside Dial
		stopDone = w.goStop(clear)
		synctest.Wait()
		startDone = w.goStart()
		spin(20000, isDone(startDone))
		w.mu.Lock()
		w.dialHold = nil
		w.mu.Unlock()
		close(hold)
		// the CONNECT goes out; answer it at once (no clock needed)
		spin(200000, func() bool {
			c1, o1 := w.connOwed(1)
			if c1 == nil {
				return false
			}
			w.mu.Lock()
			defer w.mu.Unlock()
			return o1.connectSeen
		})
		if c1, o1 := w.connOwed(1); c1 != nil {
			w.mu.Lock()
			o1.connacked, o1.accepted = true, true
			w.mu.Unlock()
			w.push(c1, &packet.Connack{})
		}
	case "backoff":
		w.Plan2("refuse")
		w.apiStart()
		synctest.Wait() // dial refused, supervisor sleeps
		w.Plan2("ok")
		stopDone = w.goStop(clear)
		startDone = w.goStart()
	}
	w.await(stopDone, "Stop")
	w.await(startDone, "Start")
	synctest.Wait()

	// ---- the run after the overlap: publish, lose the connection, resume, late acknowledgement
	if !w.field("started").Bool() {
		w.apiStart() // (backoff: Start came first and was refused, then the Stop went through)
	}
	synctest.Wait()
	w.connackCur(true)
	synctest.Wait()
	w.ackAllCur()
	w.apiCall("pub", &packet.Message{Topic: "a/b", QOS: 1}, nil, nil)
	synctest.Wait()
	if c, _, ok := w.usable(); ok {
		w.record(hev{kind: "drop", conn: c.id})
		w.note("drop %d", c.id)
		c.mu.Lock()
		c.peerGone = true
		c.wake()
		c.mu.Unlock()
	}
	time.Sleep(time.Second)
	synctest.Wait()
	w.connackCur(true)
	synctest.Wait()
	w.ackAllCur() // the retransmitted PUBLISH is acknowledged through the resumed session
	synctest.Wait()
	time.Sleep(w.tm.connTO + w.tm.resubTO + w.tm.maxD + 2*time.Second)
	if w.field("started").Bool() {
		w.apiStop(true)
	}
	synctest.Wait()
	w.runMonitors()
	o.Count("overlap/cases")
	o.Distinct(fmt.Sprintf("overlap %s %v %v", moment, clear, withSub))
	o.Sample("overlap " + moment + ": " + strings.Join(w.trace[max(0, len(w.trace)-6):], " ; "))
	time.Sleep(farFuture + time.Hour)
	synctest.Wait()
}

// directCall issues a command without the harness lock (only used once a Start from the second
// goroutine has been admitted, i.e. when Service.mutex is known to be free)
func (w *World) directCall(kind string, msg *packet.Message) {
	w.mu.Lock()
	c := &cmdRec{n: len(w.cmds) + 1, kind: kind, msg: msg, state: "p", stopsAfter: w.nstop}
	w.cmds = append(w.cmds, c)
	w.mu.Unlock()
	msg.Payload = []byte(fmt.Sprintf("c%d", c.n))
	w.record(hev{kind: "call", n: c.n, cmd: c})
	w.note("call %s #%d (while the Stop is still in progress)", kind, c.n)
	c.fut = w.svc.PublishMessage(msg)
	c.issued = true
	w.record(hev{kind: "ret", n: c.n, b: true, cmd: c})
	w.watch(c)
}
