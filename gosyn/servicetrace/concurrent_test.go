package servicetrace

import (
	"fmt"
	"strings"
	"sync"
	"testing/synctest"
	"time"

	"github.com/256dpi/gomqtt/packet"

	"verifharness/lib/gen"
	"verifharness/lib/out"
	"verifharness/lib/wire"
)

// The concurrent mode: several application goroutines issue commands, one goroutine starts and
// stops the service, an autonomous broker goroutine answers, delays, rejects, hangs up and breaks
// writes — all at once, still on the bubble's fake clock.  Which interleaving happens is up to the
// Go scheduler and to `select`, so no line is given to the Lean model here (the only `sv` lines are
// comments); the monitors judge the recorded history, and they only claim what holds for every
// interleaving.
//
// API calls are funnelled through a channel lock of the harness (the same mutual exclusion that
// Service.mutex imposes), because a goroutine waiting for a sync.Mutex is not "durably blocked"
// for synctest: the fake clock would stop while Stop holds the mutex and waits for a timeout.

func (w *World) lock()   { w.gate <- struct{}{} }
func (w *World) unlock() { <-w.gate }

func (w *World) note(format string, a ...interface{}) {
	w.mu.Lock()
	w.trace = append(w.trace, fmt.Sprintf("# @%d ", w.ms())+fmt.Sprintf(format, a...))
	w.mu.Unlock()
}

func (w *World) apiCall(kind string, msg *packet.Message, subs []packet.Subscription, topics []string) {
	w.lock()
	defer w.unlock()
	w.mu.Lock()
	c := &cmdRec{n: len(w.cmds) + 1, kind: kind, msg: msg, subs: subs, topics: topics, state: "p", stopsAfter: w.nstop}
	w.cmds = append(w.cmds, c)
	w.mu.Unlock()
	if kind == "pub" {
		// the payload names the command (the order monitor matches packets by it)
		msg.Payload = []byte(fmt.Sprintf("c%d", c.n))
	}
	w.record(hev{kind: "call", n: c.n, cmd: c})
	w.note("call %s #%d", kind, c.n)
	w.o.Count("conc/call/" + kind)
	before := w.ms()
	switch kind {
	case "pub":
		c.fut = w.svc.PublishMessage(msg)
	case "sub":
		c.fut = w.svc.SubscribeMultiple(subs)
	case "unsub":
		c.fut = w.svc.UnsubscribeMultiple(topics)
	}
	queued := w.ms()-before < w.tm.queueTO.Milliseconds()
	c.issued = queued
	w.record(hev{kind: "ret", n: c.n, b: queued, cmd: c})
	w.watch(c)
}

func (w *World) apiStart() {
	w.lock()
	defer w.unlock()
	w.record(hev{kind: "start-call"})
	r := w.svc.Start(w.cfg)
	w.record(hev{kind: "start", b: r})
	w.note("start -> %v", r)
	if r {
		w.mu.Lock()
		w.started = true
		w.mu.Unlock()
	}
}

// apiStop runs Stop under the watchdog: the caller keeps the API lock, as Stop keeps the mutex
func (w *World) apiStop(clear bool) {
	w.lock()
	defer w.unlock()
	w.mu.Lock()
	w.nstop++
	n := w.nstop
	w.mu.Unlock()
	w.record(hev{kind: "stop-call", b: clear, n: n})
	w.note("stop(%v)", clear)
	w.o.Count("conc/stop/" + b2s(clear))
	done := make(chan bool, 1)
	go func() { done <- w.svc.Stop(clear) }()
	select {
	case r := <-done:
		w.record(hev{kind: "stop-ret", b: r, n: n})
		w.record(hev{kind: "stop-state", n: w.qlen(), b: clear})
		w.mu.Lock()
		w.started = false
		w.mu.Unlock()
		w.note("stop returned %v", r)
	case <-time.After(w.stopBudget()):
		w.runMonitors()
		w.hit("stop-hangs", fmt.Sprintf("Stop did not return within %v of fake time (every timeout of the service is shorter)", w.stopBudget()))
		w.abort()
	}
}

// brokerLoop: the autonomous peer
func (w *World) brokerLoop(r *gen.Rng, done chan struct{}, wg *sync.WaitGroup, clean bool) {
	defer wg.Done()
	in := &inbound{}
	hadSession := false
	send := func(c *fconn, p packet.Generic) {
		if !c.alive() {
			return
		}
		w.record(hev{kind: "recv", conn: c.id, pkt: clonePacket(p)})
		w.note("recv %d %s", c.id, wire.ShowPacket(p))
		w.o.Count("conc/recv/" + wire.TypeName(p.Type()))
		c.in <- clonePacket(p)
	}
	for {
		select {
		case <-done:
			return
		case <-time.After(time.Duration(5+r.Intn(40)) * time.Millisecond):
		}
		c, o, ok := w.usable()
		if !ok {
			continue
		}
		w.mu.Lock()
		needConnack := o.connectSeen && !o.connacked
		accepted := o.accepted
		w.mu.Unlock()
		switch {
		case needConnack:
			w.mu.Lock()
			o.connacked = true
			w.mu.Unlock()
			switch k := r.Intn(12); {
			case k == 0:
				w.o.Count("conc/broker/no-connack")
			case k == 1:
				send(c, &packet.Connack{ReturnCode: packet.ConnackCode(1 + r.Intn(5))})
			default:
				w.mu.Lock()
				o.accepted = true
				w.mu.Unlock()
				send(c, &packet.Connack{SessionPresent: !clean && hadSession})
				hadSession = !clean
			}
		case accepted:
			switch k := r.Intn(40); {
			case k == 0:
				w.record(hev{kind: "drop", conn: c.id})
				w.note("drop %d", c.id)
				w.o.Count("conc/drop")
				c.mu.Lock()
				c.peerGone = true
				c.wake()
				c.mu.Unlock()
			case k == 1:
				c.mu.Lock()
				c.failNext = true
				c.mu.Unlock()
				w.record(hev{kind: "failnext", conn: c.id})
				w.note("failnext %d", c.id)
			case k < 6:
				w.concInbound(c, in, packet.QOS(r.Intn(3)), send)
			case k < 8:
				w.mu.Lock()
				var id packet.ID
				if len(o.in2) > 0 {
					id = o.in2[0]
					o.in2 = o.in2[1:]
				}
				w.mu.Unlock()
				if id != 0 {
					send(c, &packet.Pubrel{ID: id})
				}
			case k < 10:
				// leave the requests unanswered for a while (acks delayed, possibly beyond a reconnect)
			default:
				w.concRespond(c, o, r, send)
			}
		}
	}
}

func (w *World) concInbound(c *fconn, in *inbound, qos packet.QOS, send func(*fconn, packet.Generic)) {
	in.seq[qos]++
	p := &packet.Publish{Message: packet.Message{Topic: topics[in.seq[qos]%len(topics)], QOS: qos, Payload: []byte(fmt.Sprintf("q%d-%d", qos, in.seq[qos]))}}
	if qos > 0 {
		in.next++
		p.ID = 1000 + in.next
	}
	send(c, p)
}

func (w *World) concRespond(c *fconn, o *owed, r *gen.Rng, send func(*fconn, packet.Generic)) {
	w.mu.Lock()
	var p packet.Generic
	switch {
	case len(o.subs) > 0:
		s := o.subs[0]
		o.subs = o.subs[1:]
		codes := make([]packet.QOS, len(s.Subscriptions))
		for i, x := range s.Subscriptions {
			codes[i] = x.QOS
		}
		if r.Intn(25) == 0 && len(codes) > 0 {
			codes[0] = packet.QOSFailure
		}
		p = &packet.Suback{ID: s.ID, ReturnCodes: codes}
	case len(o.unsubs) > 0:
		p = &packet.Unsuback{ID: o.unsubs[0]}
		o.unsubs = o.unsubs[1:]
	case len(o.pub1) > 0:
		p = &packet.Puback{ID: o.pub1[0]}
		o.pub1 = o.pub1[1:]
	case len(o.pub2) > 0:
		p = &packet.Pubrec{ID: o.pub2[0]}
		o.pub2 = o.pub2[1:]
	case len(o.rel2) > 0:
		p = &packet.Pubcomp{ID: o.rel2[0]}
		o.rel2 = o.rel2[1:]
	}
	w.mu.Unlock()
	if p != nil {
		send(c, p)
	}
}

func concurrentCase(r *gen.Rng, o *out.W, prop, fixes string) {
	cc := caseCfg{cap: r.Pick(1, 3, 100), resub: r.Intn(6) != 0, validate: r.Intn(4) != 0, clean: r.Bool(), tm: defaultTiming}
	w := newWorld(o, prop, fixes, cc)
	w.concurrent = true
	w.trace = append(w.trace, fmt.Sprintf("# concurrent mode: cap=%d resub=%v validate=%v clean=%v (history as it happened; not replayable line by line)", cc.cap, cc.resub, cc.validate, cc.clean))
	done := make(chan struct{})
	var wg sync.WaitGroup
	napps := 2 + r.Intn(3)
	seeds := make([]*gen.Rng, napps+2)
	for i := range seeds {
		seeds[i] = r.Fork()
	}
	w.apiStart()
	wg.Add(1)
	go w.brokerLoop(seeds[0], done, &wg, cc.clean)
	for a := 0; a < napps; a++ {
		ra := seeds[1+a]
		wg.Add(1)
		go func() {
			defer wg.Done()
			for {
				select {
				case <-done:
					return
				case <-time.After(time.Duration(1+ra.Intn(300)) * time.Millisecond):
				}
				switch ra.Intn(6) {
				case 0, 1, 2:
					w.apiCall("pub", &packet.Message{Topic: topics[ra.Intn(len(topics))], QOS: packet.QOS(ra.Intn(3))}, nil, nil)
				case 3, 4:
					var subs []packet.Subscription
					for i, n := 0, 1+ra.Intn(2); i < n; i++ {
						subs = append(subs, packet.Subscription{Topic: filters[ra.Intn(len(filters))], QOS: packet.QOS(ra.Intn(3))})
					}
					w.apiCall("sub", nil, subs, nil)
				default:
					w.apiCall("unsub", nil, nil, []string{filters[ra.Intn(len(filters))]})
				}
			}
		}()
	}
	rc := seeds[napps+1]
	wg.Add(1)
	go func() {
		defer wg.Done()
		for {
			select {
			case <-done:
				return
			case <-time.After(time.Duration(500+rc.Intn(6000)) * time.Millisecond):
			}
			switch rc.Intn(5) {
			case 0:
				w.Plan2([]string{"ok", "ok", "refuse", "sendfail"}[rc.Intn(4)])
			case 1, 2:
				w.apiStop(rc.Bool())
				select {
				case <-done:
					return
				case <-time.After(time.Duration(rc.Intn(800)) * time.Millisecond):
				}
				w.apiStart()
			default:
				w.apiStart() // mostly a no-op: already started
			}
		}
	}()
	time.Sleep(time.Duration(20+r.Intn(40)) * time.Second)
	close(done)
	wg.Wait()
	w.Plan2("ok")
	// let open failures run into their reconnect, then the final Stop(true)
	w.mu.Lock()
	started := w.started
	w.mu.Unlock()
	if started {
		time.Sleep(w.tm.connTO + w.tm.resubTO + w.tm.maxD + 2*time.Second)
		w.record(hev{kind: "idle-check"})
		w.apiStop(true)
	}
	synctest.Wait()
	w.runMonitors()
	o.Count("conc/cases")
	o.Distinct(strings.Join(w.trace, "\n"))
	time.Sleep(farFuture + time.Hour)
	synctest.Wait()
}

// Plan2 changes what the next Dial meets (concurrent mode: no model line)
func (w *World) Plan2(k string) {
	w.mu.Lock()
	w.plan = k
	w.mu.Unlock()
	w.record(hev{kind: "plan", arg: k})
	w.note("plan %s", k)
}
