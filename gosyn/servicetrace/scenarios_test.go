package servicetrace

import (
	"time"

	"github.com/256dpi/gomqtt/packet"

	"verifharness/lib/out"
)

// Deterministic scripts: one per defect row of DESIGN §6 that concerns the service, plus the
// behaviours the property text names explicitly.

type scenario struct {
	name string
	run  func(o *out.W, prop, fixes string)
}

func stdCfg(clean bool) caseCfg {
	return caseCfg{cap: 100, resub: true, validate: true, clean: clean, tm: defaultTiming}
}

func pubMsg(topic string, qos packet.QOS, pl string) *packet.Message {
	return &packet.Message{Topic: topic, QOS: qos, Payload: []byte(pl)}
}

var scenarios = []scenario{
	{"row 16: Stop(true) with commands still queued", func(o *out.W, prop, fixes string) {
		w := newWorld(o, prop, fixes, stdCfg(true))
		w.Plan("refuse")
		w.Start()
		w.Sleep(120 * time.Millisecond)
		w.Call("pub", pubMsg("a", 1, "c1"), nil, nil)
		w.Call("sub", nil, []packet.Subscription{{Topic: "a/#", QOS: 1}}, nil)
		w.StopCall(true)
		w.finish()
	}},
	{"row 15: rejected subscription", func(o *out.W, prop, fixes string) {
		w := newWorld(o, prop, fixes, stdCfg(true))
		w.Start()
		w.Connack(false, 0)
		w.Call("sub", nil, []packet.Subscription{{Topic: "a", QOS: 1}, {Topic: "b", QOS: 0}}, nil)
		w.Respond(0, true) // SUBACK 0x80
		w.Call("pub", pubMsg("a", 1, "c2"), nil, nil)
		w.Respond(0, false)
		w.Sleep(600 * time.Millisecond)
		w.Connack(false, 0)
		w.RespondAll()
		w.finish()
	}},
	{"row 17: clean-session reconnect reuses packet ids", func(o *out.W, prop, fixes string) {
		w := newWorld(o, prop, fixes, stdCfg(true))
		w.Start()
		w.Connack(false, 0)
		w.Call("pub", pubMsg("a", 1, "c1"), nil, nil)
		c, _, _ := w.usable()
		w.Drop(c.id)
		w.Sleep(60 * time.Millisecond)
		w.Connack(false, 0)
		w.Call("pub", pubMsg("a", 1, "c2"), nil, nil)
		w.StopCall(true)
		w.finish()
	}},
	{"offline commands, resubscribe, futures through the resumed session, restart", func(o *out.W, prop, fixes string) {
		w := newWorld(o, prop, fixes, stdCfg(false))
		w.Plan("refuse")
		w.Start()
		w.Call("sub", nil, []packet.Subscription{{Topic: "b", QOS: 1}, {Topic: "a/#", QOS: 2}}, nil)
		w.Call("pub", pubMsg("a", 1, "c2"), nil, nil)
		w.Call("unsub", nil, nil, []string{"b"})
		w.Call("sub", nil, []packet.Subscription{{Topic: "a", QOS: 0}}, nil)
		w.Call("pub", pubMsg("b", 2, "c5"), nil, nil)
		w.Sleep(500 * time.Millisecond)
		w.Plan("ok")
		w.Sleep(500 * time.Millisecond)
		w.Connack(false, 0)
		w.Respond(0, false) // SUBACK of command 1
		// the PUBLISHes stay unacknowledged; the connection is lost
		c, _, _ := w.usable()
		w.Drop(c.id)
		w.Sleep(500 * time.Millisecond)
		w.Connack(true, 0) // session resumed: the client retransmits, the broker acknowledges now
		w.RespondAll()
		w.RespondAll()
		w.StopCall(false)
		w.awaitStop()
		w.Call("pub", pubMsg("a", 1, "c6"), nil, nil)
		w.Start()
		w.Connack(true, 0)
		w.RespondAll()
		w.finish()
	}},
	{"failure during resubscribe, no CONNACK, denied, send failures", func(o *out.W, prop, fixes string) {
		w := newWorld(o, prop, fixes, stdCfg(false))
		w.Start()
		w.Sleep(5100 * time.Millisecond) // no CONNACK
		w.Sleep(100 * time.Millisecond)
		w.Connack(false, 5) // denied
		w.Sleep(200 * time.Millisecond)
		w.Connack(false, 0)
		w.Call("sub", nil, []packet.Subscription{{Topic: "a", QOS: 1}}, nil)
		w.RespondAll()
		c, _, _ := w.usable()
		w.Drop(c.id)
		w.Sleep(500 * time.Millisecond)
		w.Connack(true, 0)
		w.Sleep(7100 * time.Millisecond) // no SUBACK during resubscribe
		w.Sleep(500 * time.Millisecond)
		w.Connack(true, 0)
		w.Respond(0, true) // resubscribe rejected
		w.Sleep(500 * time.Millisecond)
		if c, _, ok := w.usable(); ok {
			w.FailNext(c.id) // resubscribe cannot be written
		}
		w.Connack(true, 0)
		w.Sleep(500 * time.Millisecond)
		w.Connack(true, 0)
		w.RespondAll()
		if c, _, ok := w.usable(); ok {
			w.FailNext(c.id)
		}
		w.Call("pub", pubMsg("a", 1, "c2"), nil, nil) // write fails
		w.Sleep(500 * time.Millisecond)
		w.Connack(true, 0)
		w.RespondAll()
		w.RespondAll()
		w.finish()
	}},
	{"inbound messages in arrival order, callback error", func(o *out.W, prop, fixes string) {
		w := newWorld(o, prop, fixes, stdCfg(false))
		in := &inbound{}
		w.Start()
		w.Connack(false, 0)
		for i := 0; i < 4; i++ {
			w.Inbound(in, 0, false)
			w.Inbound(in, 2, false)
			w.Inbound(in, 1, false)
			w.Inbound(in, 2, false)
		}
		for w.Release() {
		}
		w.Inbound(in, 1, true) // MessageCallback returns an error: the client is closed, the service reconnects
		w.Sleep(500 * time.Millisecond)
		w.Connack(true, 0)
		w.Inbound(in, 1, false)
		w.finish()
	}},
	{"full queue: QueueTimeout cancels, Stop(true) while blocked commands wait", func(o *out.W, prop, fixes string) {
		cc := stdCfg(true)
		cc.cap = 2
		w := newWorld(o, prop, fixes, cc)
		w.Plan("refuse")
		w.Start()
		w.Call("pub", pubMsg("a", 0, "c1"), nil, nil)
		w.Call("pub", pubMsg("a", 1, "c2"), nil, nil)
		w.Call("pub", pubMsg("a", 2, "c3"), nil, nil) // blocks for QueueTimeout, then cancelled
		w.Plan("ok")
		w.Sleep(500 * time.Millisecond)
		w.Connack(false, 0)
		w.RespondAll()
		w.RespondAll()
		w.finish()
	}},
	{"row 18: DisconnectTimeout 0 with an acknowledgement outstanding", func(o *out.W, prop, fixes string) {
		cc := stdCfg(false)
		cc.tm.discTO = 0
		w := newWorld(o, prop, fixes, cc)
		w.Start()
		w.Connack(false, 0)
		w.Call("pub", pubMsg("a", 1, "c1"), nil, nil) // never acknowledged
		w.StopCall(false)
		w.awaitStop()
		w.Start()
		w.Connack(true, 0)
		w.RespondAll() // the retransmitted PUBLISH is acknowledged through the resumed session
		w.finish()
	}},
	{"row 9: CONNECT cannot be written", func(o *out.W, prop, fixes string) {
		w := newWorld(o, prop, fixes, stdCfg(true))
		w.Plan("sendfail")
		w.Start()
		w.Plan("ok")
		w.Sleep(600 * time.Millisecond)
		w.Connack(false, 0)
		w.finish()
	}},
}
