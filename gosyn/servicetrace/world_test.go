// Package servicetrace drives the real client.Service (client/service.go from the code under
// test) inside a testing/synctest bubble against a scripted in-memory broker peer reached through
// Config.Dialer, and reports stimuli and observations in the line protocol of
// lean/Drv/Service.lean (`sv …`).  Built as a test binary because synctest needs *testing.T.
//
// A case that wedges the service for good (a Stop that never returns) cannot be torn down: a
// bubble with goroutines blocked for ever makes synctest.Test panic.  Therefore the cases run in
// a child process (the same binary, flag -child); when the watchdog of a case fires, the child
// records the violation, flushes its output and exits with code 3; the parent merges what the
// child wrote and starts the next child behind the offending case.
package servicetrace

import (
	"errors"
	"fmt"
	"io"
	"net"
	"os"
	"reflect"
	"sort"
	"strings"
	"sync"
	"testing/synctest"
	"time"
	"unsafe"

	"github.com/256dpi/gomqtt/client"
	"github.com/256dpi/gomqtt/packet"
	"github.com/256dpi/gomqtt/topic"
	"github.com/256dpi/gomqtt/transport"

	"verifharness/lib/out"
	"verifharness/lib/wire"
)

// ---------------------------------------------------------------- fake connection

type fconn struct {
	w        *World
	id       int
	in       chan packet.Generic
	cl       chan struct{}
	mu       sync.Mutex
	closed   bool // the client closed it
	peerGone bool
	broken   bool
	failNext bool // fail the next send of the supervisor goroutine
	procFail bool // fail the next send of the processor goroutine
}

// supervisorClass: packets written by the service's supervisor goroutine (through the client's
// API); everything else is written by the client's processor goroutine
func supervisorClass(p packet.Generic) bool {
	switch x := p.(type) {
	case *packet.Connect, *packet.Subscribe, *packet.Unsubscribe, *packet.Disconnect:
		return true
	case *packet.Publish:
		return !x.Dup
	}
	return false
}

func (c *fconn) Send(p packet.Generic, async bool) error {
	c.mu.Lock()
	defer c.mu.Unlock()
	p = clonePacket(p)
	sup := supervisorClass(p)
	dead := c.closed || c.peerGone || c.broken
	if !dead && sup && c.failNext {
		c.failNext, c.broken, dead = false, true, true
	}
	if !dead && !sup && c.procFail {
		c.procFail, c.broken, dead = false, true, true
	}
	if dead {
		if sup {
			c.w.obs(fmt.Sprintf("sendfail %d %s", c.id, wire.ShowPacket(p)), hev{kind: "sendfail", conn: c.id, pkt: p})
		} else {
			c.w.record(hev{kind: "psendfail", conn: c.id, pkt: p})
		}
		return errors.New("send failed")
	}
	if sup {
		c.w.obs(fmt.Sprintf("sent %d %s", c.id, wire.ShowPacket(p)), hev{kind: "sent", conn: c.id, pkt: p})
	} else {
		c.w.record(hev{kind: "psent", conn: c.id, pkt: p})
	}
	c.w.delivered(c, p)
	return nil
}

func (c *fconn) Receive() (packet.Generic, error) {
	select {
	case p := <-c.in:
		return p, nil
	case <-c.cl:
		return nil, io.EOF
	}
}

func (c *fconn) wake() {
	select {
	case <-c.cl:
	default:
		close(c.cl)
	}
}

func (c *fconn) Close() error {
	c.mu.Lock()
	defer c.mu.Unlock()
	if !c.closed {
		c.closed = true
		c.w.obs(fmt.Sprintf("closed %d", c.id), hev{kind: "closed", conn: c.id})
		c.wake()
	}
	return nil
}

func (c *fconn) alive() bool {
	c.mu.Lock()
	defer c.mu.Unlock()
	return !c.closed && !c.peerGone
}

func (c *fconn) SetReadLimit(int64)             {}
func (c *fconn) SetReadTimeout(time.Duration)   {}
func (c *fconn) SetMaxWriteDelay(time.Duration) {}
func (c *fconn) LocalAddr() net.Addr            { return nil }
func (c *fconn) RemoteAddr() net.Addr           { return nil }

// clonePacket snapshots a packet (the client keeps mutating some of them, e.g. the dup flag)
func clonePacket(p packet.Generic) packet.Generic {
	buf := make([]byte, p.Len())
	if _, err := p.Encode(buf); err != nil {
		return p
	}
	q, _ := p.Type().New()
	if _, err := q.Decode(buf); err != nil {
		return p
	}
	return q
}

// ---------------------------------------------------------------- world

// hev is one entry of the ordered history of a case (stimuli and observations); the monitors
// work on it, not on the Lean model
type hev struct {
	kind string // start stop-call stop-ret call ret plan recv drop failnext procfail sleep | dial sent sendfail psent psendfail closed online offline error msg
	t    int64  // fake ms
	conn int
	n    int            // command number
	pkt  packet.Generic // copy
	txt  string
	arg  string
	b    bool
	cmd  *cmdRec
}

type cmdRec struct {
	n      int
	kind   string // pub sub unsub
	msg    *packet.Message
	subs   []packet.Subscription
	topics []string
	fut    client.GenericFuture
	mu     sync.Mutex
	state  string // p c x
	issued bool   // entered the queue
	stopsAfter int // number of Stop calls issued before this command
}

type obsLine struct {
	t   int64
	txt string
	seq int
}

type timing struct{ minD, maxD, connTO, resubTO, discTO, queueTO time.Duration }

type World struct {
	o     *out.W
	prop  string
	svc   *client.Service
	cfg   *client.Config
	tm    timing
	t0    time.Time
	mu    sync.Mutex
	hist  []hev
	pend  []obsLine
	seq   int
	trace []string
	conns []*fconn // index = id-1; nil for a refused dial
	plan  string
	cmds  []*cmdRec
	nstop int
	// scripted broker: what the current connection still owes
	cur      *fconn
	stopDone chan bool
	stopping bool
	stopClear bool
	started  bool
	gate     chan struct{}
	fixes    string
	aborted  bool
	concurrent bool
	dialHold chan struct{} // overlap schedules: Dial waits until this channel is closed
	qcap     int
}

var errRefused = errors.New("connection refused")

func (w *World) ms() int64 { return time.Since(w.t0).Milliseconds() }

func (w *World) record(e hev) {
	w.mu.Lock()
	e.t = w.ms()
	w.hist = append(w.hist, e)
	w.mu.Unlock()
}

// obs: an observation that is part of the line protocol
func (w *World) obs(txt string, e hev) {
	w.mu.Lock()
	e.t = w.ms()
	e.txt = txt
	w.hist = append(w.hist, e)
	w.seq++
	if w.concurrent {
		w.trace = append(w.trace, fmt.Sprintf("# @%d obs %s", e.t, txt))
	} else {
		w.pend = append(w.pend, obsLine{t: e.t, txt: txt, seq: w.seq})
	}
	w.mu.Unlock()
}

func (w *World) op(line, answer string) {
	w.trace = append(w.trace, line)
	w.o.Op(line, answer)
}

func classRank(txt string) int {
	switch {
	case strings.HasPrefix(txt, "msg "), txt == "error callback":
		return 0
	case strings.HasPrefix(txt, "closed "):
		return 1
	case strings.HasPrefix(txt, "ret "), strings.HasPrefix(txt, "stopret "):
		return 3
	}
	return 2
}

// Dial implements client.Dialer
func (w *World) Dial(string) (transport.Conn, error) {
	w.mu.Lock()
	hold := w.dialHold
	w.mu.Unlock()
	if hold != nil {
		<-hold
	}
	w.mu.Lock()
	plan := w.plan
	id := len(w.conns) + 1
	var fc *fconn
	if plan != "refuse" {
		fc = &fconn{w: w, id: id, in: make(chan packet.Generic, 4096), cl: make(chan struct{})}
		fc.failNext = plan == "sendfail"
		w.cur = fc
	}
	w.conns = append(w.conns, fc)
	w.mu.Unlock()
	w.obs(fmt.Sprintf("dial %d %s", id, plan), hev{kind: "dial", conn: id, arg: plan})
	if fc == nil {
		return nil, errRefused
	}
	return fc, nil
}

func b2s(b bool) string {
	if b {
		return "1"
	}
	return "0"
}

type caseCfg struct {
	cap      int
	resub    bool
	validate bool
	clean    bool
	tm       timing
}

var defaultTiming = timing{minD: 50 * time.Millisecond, maxD: 400 * time.Millisecond, connTO: 5 * time.Second,
	resubTO: 7 * time.Second, discTO: 11 * time.Second, queueTO: 3001 * time.Millisecond}

func newWorld(o *out.W, prop, fixes string, cc caseCfg) *World {
	w := &World{o: o, prop: prop, t0: time.Now(), plan: "ok", fixes: fixes, tm: cc.tm, gate: make(chan struct{}, 1), qcap: cc.cap}
	s := client.NewService(cc.cap)
	s.MinReconnectDelay, s.MaxReconnectDelay = cc.tm.minD, cc.tm.maxD
	s.ConnectTimeout, s.ResubscribeTimeout, s.DisconnectTimeout, s.QueueTimeout = cc.tm.connTO, cc.tm.resubTO, cc.tm.discTO, cc.tm.queueTO
	s.ResubscribeAllSubscriptions = cc.resub
	s.OnlineCallback = func(resumed bool) { w.obs("online "+b2s(resumed), hev{kind: "online", b: resumed}) }
	s.OfflineCallback = func() { w.obs("offline", hev{kind: "offline"}) }
	s.MessageCallback = func(m *packet.Message) error {
		w.obs("msg "+wire.ShowMessage(m), hev{kind: "msg", pkt: &packet.Publish{Message: *m.Copy()}})
		if strings.HasPrefix(string(m.Payload), "bad") {
			return errors.New("application refuses the message")
		}
		return nil
	}
	s.Logger = func(msg string) {
		// "<Sys> Error: …" is the only way to learn which subsystem reported an error
		if i := strings.Index(msg, " Error: "); i > 0 {
			sys := strings.ToLower(msg[:i])
			w.obs("error "+sys, hev{kind: "error", arg: sys})
		}
	}
	w.svc = s
	cfg := client.NewConfigWithClientID("tcp://broker.invalid:1883", "svc")
	cfg.Dialer = w
	cfg.KeepAlive = "0s"
	cfg.CleanSession = cc.clean
	cfg.ValidateSubs = cc.validate
	w.cfg = cfg
	ms := func(d time.Duration) int64 { return d.Milliseconds() }
	w.op(fmt.Sprintf("sv new %d %s %s %s %s %s %d %d %d %d %d %d", cc.cap, b2s(cc.resub), b2s(cc.validate), b2s(cc.clean), wire.HxS("svc"), fixes,
		ms(cc.tm.minD), ms(cc.tm.maxD), ms(cc.tm.connTO), ms(cc.tm.resubTO), ms(cc.tm.discTO), ms(cc.tm.queueTO)), "ok")
	return w
}

// ---- reading the service's private state (at quiescence only)

func (w *World) field(name string) reflect.Value { return reflect.ValueOf(w.svc).Elem().FieldByName(name) }

func (w *World) qlen() int { return w.field("commandQueue").Len() }

func (w *World) stateLine() string {
	started := w.field("started").Bool()
	var ids []int
	st := w.field("futureStore").Elem().FieldByName("store")
	for _, k := range st.MapKeys() {
		ids = append(ids, int(k.Uint()))
	}
	sort.Ints(ids)
	var idl []string
	for _, i := range ids {
		idl = append(idl, fmt.Sprint(i))
	}
	tree := (*topic.Tree)(unsafe.Pointer(w.field("subscriptions").Pointer()))
	var subs []packet.Subscription
	for _, v := range tree.All() {
		subs = append(subs, v.(packet.Subscription))
	}
	sort.Slice(subs, func(i, j int) bool { return subs[i].Topic < subs[j].Topic })
	var sl []string
	for _, s := range subs {
		sl = append(sl, fmt.Sprintf("%s:%d", wire.HxS(s.Topic), s.QOS))
	}
	cl := func(l []string) string {
		if len(l) == 0 {
			return "-"
		}
		return strings.Join(l, ",")
	}
	return fmt.Sprintf("started=%s q=%d store=%s subs=%s", b2s(started), w.qlen(), cl(idl), cl(sl))
}

// settle waits for quiescence, then reports what happened, in the canonical order of the line
// protocol (per goroutine class), and the futures that were resolved meanwhile
func (w *World) settle() {
	synctest.Wait()
	w.mu.Lock()
	l := w.pend
	w.pend = nil
	w.mu.Unlock()
	sort.SliceStable(l, func(i, j int) bool {
		if a, b := classRank(l[i].txt), classRank(l[j].txt); a != b {
			return a < b
		}
		return l[i].seq < l[j].seq
	})
	for _, e := range l {
		w.op(fmt.Sprintf("sv obs %d %s", e.t, e.txt), "ok")
	}
	w.op("sv settle", "ok")
	var ch []string
	for _, c := range w.cmds {
		c.mu.Lock()
		st := c.state
		c.mu.Unlock()
		if st != "p" && !c.reported() {
			ch = append(ch, fmt.Sprintf("%d:%s", c.n, st))
			c.markReported()
		}
	}
	a := "-"
	if len(ch) > 0 {
		a = strings.Join(ch, ",")
	}
	w.op("sv futs", a)
	w.op("sv state", w.stateLine())
	w.record(hev{kind: "settle", n: w.qlen()})
}

var reportedMu sync.Mutex
var reported = map[*cmdRec]bool{}

func (c *cmdRec) reported() bool { reportedMu.Lock(); defer reportedMu.Unlock(); return reported[c] }
func (c *cmdRec) markReported()  { reportedMu.Lock(); reported[c] = true; reportedMu.Unlock() }

const farFuture = 100000 * time.Hour

// watch records how a command future is resolved
func (w *World) watch(c *cmdRec) {
	go func() {
		err := c.fut.Wait(farFuture)
		c.mu.Lock()
		switch {
		case err == nil:
			c.state = "c"
		case strings.Contains(err.Error(), "cancel"):
			c.state = "x"
		}
		st := c.state
		c.mu.Unlock()
		w.record(hev{kind: "fut", n: c.n, arg: st})
		if w.concurrent {
			w.note("future #%d -> %s", c.n, st)
		}
	}()
}

// ---- stimuli

func (w *World) Start() bool {
	w.record(hev{kind: "start-call"})
	r := w.svc.Start(w.cfg)
	w.record(hev{kind: "start", b: r})
	w.op("sv start", fmt.Sprint(r))
	if r {
		w.started = true
	}
	w.o.Count("stim/start")
	w.settle()
	return r
}

// StopCall runs Stop on a helper goroutine: the caller goes on injecting stimuli while it is pending
func (w *World) StopCall(clear bool) {
	w.nstop++
	w.record(hev{kind: "stop-call", b: clear, n: w.nstop})
	w.op("sv stopcall "+b2s(clear), "ok")
	w.o.Count("stim/stop/" + b2s(clear))
	w.stopping = true
	w.stopClear = clear
	done := make(chan bool, 1)
	w.stopDone = done
	n := w.nstop
	go func() {
		r := w.svc.Stop(clear)
		w.obs("stopret "+b2s(r), hev{kind: "stop-ret", b: r, n: n})
		done <- r
	}()
	w.settle()
	w.pollStop()
}

func (w *World) pollStop() {
	if w.stopDone == nil {
		return
	}
	select {
	case <-w.stopDone:
		w.stopDone, w.stopping, w.started = nil, false, false
		w.record(hev{kind: "stop-state", n: w.qlen(), b: w.stopClear})
	default:
	}
}

// stopBudget: every wait of the supervisor is bounded by one of the service's timeouts; a Stop
// that needs more than all of them together (plus slack) will never return
func (w *World) stopBudget() time.Duration {
	return w.tm.maxD + w.tm.connTO + w.tm.resubTO + w.tm.discTO + w.tm.queueTO + time.Minute
}

func (w *World) Call(kind string, msg *packet.Message, subs []packet.Subscription, topics []string) *cmdRec {
	c := &cmdRec{n: len(w.cmds) + 1, kind: kind, msg: msg, subs: subs, topics: topics, state: "p", stopsAfter: w.nstop}
	w.cmds = append(w.cmds, c)
	var line string
	switch kind {
	case "pub":
		line = fmt.Sprintf("sv call pub %d %s", c.n, wire.ShowMessage(msg))
	case "sub":
		var l []string
		for _, s := range subs {
			l = append(l, fmt.Sprintf("%s:%d", wire.HxS(s.Topic), s.QOS))
		}
		line = fmt.Sprintf("sv call sub %d %s", c.n, strings.Join(l, ","))
	case "unsub":
		var l []string
		for _, t := range topics {
			l = append(l, wire.HxS(t))
		}
		line = fmt.Sprintf("sv call unsub %d %s", c.n, strings.Join(l, ","))
	}
	w.record(hev{kind: "call", n: c.n, cmd: c})
	w.op(line, "ok")
	w.o.Count("stim/call/" + kind)
	before := w.ms()
	switch kind {
	case "pub":
		c.fut = w.svc.PublishMessage(msg)
	case "sub":
		c.fut = w.svc.SubscribeMultiple(subs)
	case "unsub":
		c.fut = w.svc.UnsubscribeMultiple(topics)
	}
	// the call blocks only when the queue is full; it gives up after QueueTimeout
	timedOut := w.ms()-before >= w.tm.queueTO.Milliseconds()
	if timedOut {
		w.obs(fmt.Sprintf("ret %d timeout", c.n), hev{kind: "ret", n: c.n, b: false, cmd: c})
		w.o.Count("call/queue-timeout")
	} else {
		c.issued = true
		w.obs(fmt.Sprintf("ret %d queued", c.n), hev{kind: "ret", n: c.n, b: true, cmd: c})
	}
	w.watch(c)
	w.settle()
	return c
}

func (w *World) Plan(k string) {
	w.mu.Lock()
	w.plan = k
	w.mu.Unlock()
	w.record(hev{kind: "plan", arg: k})
	w.op("sv plan "+k, "ok")
	w.o.Count("stim/plan/" + k)
}

func (w *World) conn(c int) *fconn {
	w.mu.Lock()
	defer w.mu.Unlock()
	if c < 1 || c > len(w.conns) {
		return nil
	}
	return w.conns[c-1]
}

func (w *World) Recv(c int, p packet.Generic) {
	fc := w.conn(c)
	if fc == nil || !fc.alive() {
		return
	}
	w.record(hev{kind: "recv", conn: c, pkt: clonePacket(p)})
	w.op(fmt.Sprintf("sv recv %d %s", c, wire.ShowPacket(p)), "ok")
	w.o.Count("stim/recv/" + wire.TypeName(p.Type()))
	fc.in <- clonePacket(p)
	w.settle()
}

func (w *World) Drop(c int) {
	fc := w.conn(c)
	if fc == nil || !fc.alive() {
		return
	}
	w.record(hev{kind: "drop", conn: c})
	w.op(fmt.Sprintf("sv drop %d", c), "ok")
	w.o.Count("stim/drop")
	fc.mu.Lock()
	fc.peerGone = true
	fc.wake()
	fc.mu.Unlock()
	w.settle()
}

func (w *World) FailNext(c int) {
	fc := w.conn(c)
	if fc == nil || !fc.alive() {
		return
	}
	fc.mu.Lock()
	fc.failNext = true
	fc.mu.Unlock()
	w.record(hev{kind: "failnext", conn: c})
	w.op(fmt.Sprintf("sv failnext %d", c), "ok")
	w.o.Count("stim/failnext")
}

func (w *World) ProcFail(c int) {
	fc := w.conn(c)
	if fc == nil || !fc.alive() {
		return
	}
	fc.mu.Lock()
	fc.procFail = true
	fc.mu.Unlock()
	w.record(hev{kind: "procfail", conn: c})
	w.op(fmt.Sprintf("sv procfail %d", c), "ok")
	w.o.Count("stim/procfail")
}

func (w *World) Sleep(d time.Duration) {
	w.record(hev{kind: "sleep", t: d.Milliseconds()})
	w.op(fmt.Sprintf("sv sleep %d", d.Milliseconds()), "ok")
	time.Sleep(d)
	w.settle()
	w.pollStop()
}

func (w *World) hit(kind, detail string) {
	w.o.Monitor(w.prop, kind, detail, append([]string{}, w.trace...))
	w.o.Count("hit/" + kind)
}

// abort: the bubble of this case cannot be torn down any more (a goroutine of the service is
// blocked for ever).  Flush and leave; the parent process resumes behind this case.
func (w *World) abort() {
	w.aborted = true
	abortProcess(w.o)
}

var abortProcess = func(o *out.W) {
	o.Close()
	os.Exit(3)
}

// finish ends a case: pending Stop must return, the service is stopped (futures cleared), and
// nothing may stay blocked
func (w *World) finish() {
	if w.stopping {
		w.awaitStop()
	}
	if w.started {
		// let every failure that is still open run into its reconnect before the final Stop
		w.Sleep(w.tm.connTO + w.tm.resubTO + w.tm.maxD + 2*time.Second)
		w.StopCall(true)
		w.awaitStop()
	}
	w.runMonitors()
	time.Sleep(farFuture + time.Hour)
	synctest.Wait()
}

// awaitStop lets fake time pass until the pending Stop has returned; a Stop that outlives every
// timeout of the service is the violation "stop-hangs"
func (w *World) awaitStop() {
	if !w.stopping {
		return
	}
	deadline := w.stopBudget()
	step := 500 * time.Millisecond
	for spent := time.Duration(0); w.stopping && spent < deadline; spent += step {
		w.Sleep(step)
		if step < 8*time.Second {
			step *= 2
		}
	}
	if w.stopping {
		w.runMonitors()
		kind := "stop-hangs"
		if w.tm.discTO == 0 {
			kind = "stop-hangs-disconnect-timeout-0"
		}
		w.hit(kind, fmt.Sprintf("Stop did not return within %v of fake time (every timeout of the service is shorter)", deadline))
		w.abort()
	}
}
