package brokertrace

import (
	"flag"
	"fmt"
	"strings"
	"testing"

	"github.com/256dpi/gomqtt/packet"

	"verifharness/lib/gen"
	"verifharness/lib/out"
	"verifharness/lib/wire"
)

var (
	fProp   = flag.String("prop", "C06", "property")
	fSeed   = flag.Uint64("seed", 1, "seed")
	fTier   = flag.String("tier", "quick", "quick|thorough")
	fOut    = flag.String("out", "", "output directory")
	fShard  = flag.Int("shard", 0, "shard")
	fNShard = flag.Int("nshard", 1, "shards")
)

// ---- peer-side helpers (scripted clients)

func (w *World) Connect(c int, id string, clean bool, will *packet.Message, ka uint16, user, pass string) {
	p := packet.NewConnect()
	p.ClientID, p.CleanSession, p.Will, p.KeepAlive, p.Username, p.Password = id, clean, will, ka, user, pass
	pr := w.peers[c]
	pr.clientID, pr.clean, pr.will = id, clean, will
	w.Send(c, p)
	for _, a := range pr.acks {
		if strings.HasPrefix(a, "connack") && strings.HasSuffix(a, " 0") {
			pr.connected = true
		}
	}
}

func (w *World) nextPid(c int) packet.ID {
	w.seq++
	return packet.ID(1 + (w.seq*7+c)%60000)
}

func (w *World) Subscribe(c int, subs ...packet.Subscription) {
	w.Send(c, &packet.Subscribe{ID: w.nextPid(c), Subscriptions: subs})
}

func (w *World) Unsubscribe(c int, topics ...string) {
	w.Send(c, &packet.Unsubscribe{ID: w.nextPid(c), Topics: topics})
}

// Publish sends a PUBLISH with a unique payload tag; QoS 2 ids are remembered for the PUBREL
func (w *World) Publish(c int, topic string, qos packet.QOS, retain bool, empty bool) string {
	w.seq++
	tag := fmt.Sprintf("m%d", w.seq)
	p := &packet.Publish{Message: packet.Message{Topic: topic, QOS: qos, Retain: retain, Payload: []byte(tag)}}
	if empty {
		p.Message.Payload = nil
	}
	if qos > 0 {
		p.ID = w.nextPid(c)
	}
	if qos == 2 {
		w.peers[c].open2 = append(w.peers[c].open2, p.ID)
	}
	w.Send(c, p)
	return tag
}

// Release sends the PUBREL for the oldest open QoS 2 publish of c
func (w *World) Release(c int) bool {
	pr := w.peers[c]
	if len(pr.open2) == 0 {
		return false
	}
	id := pr.open2[0]
	pr.open2 = pr.open2[1:]
	pr.released2 = append(pr.released2, id)
	w.Send(c, &packet.Pubrel{ID: id})
	return true
}

// AckOne advances the oldest (or the i-th) unfinished inbound handshake of peer c by one step
func (w *World) AckOne(c int, i int) bool {
	pr := w.peers[c]
	if len(pr.unacked) == 0 {
		return false
	}
	i = i % len(pr.unacked)
	u := pr.unacked[i]
	switch {
	case u.qos == 1:
		pr.unacked = append(pr.unacked[:i], pr.unacked[i+1:]...)
		w.Send(c, &packet.Puback{ID: u.id})
	case !u.rec:
		u.rec = true
		w.Send(c, &packet.Pubrec{ID: u.id})
	default:
		pr.unacked = append(pr.unacked[:i], pr.unacked[i+1:]...)
		w.Send(c, &packet.Pubcomp{ID: u.id})
	}
	return true
}

func (w *World) AckAll(c int) {
	for guard := 0; len(w.peers[c].unacked) > 0 && guard < 500 && w.alive(c); guard++ {
		w.AckOne(c, 0)
	}
}

// Reconnect opens a new connection for the same client id, carrying the peer-side session over
func (w *World) Reconnect(old int, clean bool) int {
	c := w.Conn()
	po := w.peers[old]
	pn := w.peers[c]
	if !clean {
		// the peer keeps its view of unfinished handshakes (it will see duplicates)
		pn.unacked = po.unacked
		pn.open2 = append(append([]packet.ID{}, po.released2...), po.open2...)
	}
	w.Connect(c, po.clientID, clean, po.will, 0, "", "")
	return c
}

var topics = []string{"a", "a/b", "a/c", "b", "a/b/c", "", "/", "a//b"}
var filters = []string{"a", "a/b", "a/+", "a/#", "#", "+", "+/+", "b", "a/b/#", "+/b", "/", "", "a//b", "/#"}

type profile struct {
	window, queue         int
	clients               int
	steps                 int
	wSub, wUnsub, wPub    int
	wAck, wDrop, wRecon   int
	wRelease, wPing, wBad int
	wFail, wLate          int
	retain                int // percent of publishes with retain
	wills                 bool
	qos                   []packet.QOS
	multiFilter           bool
}

func pickW(r *gen.Rng, ws []int) int {
	t := 0
	for _, x := range ws {
		t += x
	}
	if t == 0 {
		return 0
	}
	k := r.Intn(t)
	for i, x := range ws {
		if k < x {
			return i
		}
		k -= x
	}
	return 0
}

// randomScript: clients connect, then a weighted random walk over the stimulus alphabet
func randomScript(r *gen.Rng, o *out.W, prop string, p profile) {
	w := newWorld(o, prop, p.window, p.queue, nil)
	ids := []string{"A", "B", "C", "D", "E", "F"}[:p.clients]
	cur := map[string]int{} // client id -> current connection
	budget := p.queue - 5   // never let a queue of an online client fill up (the model calls that unsupported)
	sent := 0
	for _, id := range ids {
		c := w.Conn()
		var will *packet.Message
		if p.wills && r.Bool() {
			will = &packet.Message{Topic: topics[r.Intn(3)], Payload: []byte("will-" + id), QOS: p.qos[r.Intn(len(p.qos))], Retain: r.Intn(100) < p.retain}
		}
		w.Connect(c, id, r.Intn(3) == 0, will, 0, "", "")
		cur[id] = c
	}
	anyAlive := func() (string, int, bool) {
		for try := 0; try < 20; try++ {
			id := ids[r.Intn(len(ids))]
			if c, ok := cur[id]; ok && w.alive(c) && w.peers[c].connected {
				return id, c, true
			}
		}
		return "", 0, false
	}
	for step := 0; step < p.steps; step++ {
		k := pickW(r, []int{p.wSub, p.wUnsub, p.wPub, p.wAck, p.wDrop, p.wRecon, p.wRelease, p.wPing, p.wBad, p.wFail, p.wLate})
		id, c, ok := anyAlive()
		if !ok && k != 5 {
			k = 5
		}
		switch k {
		case 0:
			n := 1
			if p.multiFilter {
				n = 1 + r.Intn(4)
			}
			var subs []packet.Subscription
			for i := 0; i < n; i++ {
				subs = append(subs, packet.Subscription{Topic: filters[r.Intn(len(filters))], QOS: p.qos[r.Intn(len(p.qos))]})
			}
			w.Subscribe(c, subs...)
		case 1:
			w.Unsubscribe(c, filters[r.Intn(len(filters))])
		case 2:
			if sent >= budget {
				continue
			}
			sent++
			w.Publish(c, topics[r.Intn(len(topics)-3)+r.Intn(2)*0], p.qos[r.Intn(len(p.qos))], r.Intn(100) < p.retain, r.Intn(100) < p.retain/4)
		case 3:
			if !w.AckOne(c, r.Intn(4)) {
				w.Release(c)
			}
		case 4:
			w.Drop(c)
			_ = id
		case 5:
			// reconnect some client that is gone (or take over a live one)
			id := ids[r.Intn(len(ids))]
			old := cur[id]
			cur[id] = w.Reconnect(old, r.Intn(4) == 0)
		case 6:
			w.Release(c)
		case 7:
			w.Send(c, &packet.Pingreq{})
		case 8:
			// out-of-protocol packets
			switch r.Intn(5) {
			case 0:
				w.Send(c, &packet.Connack{})
			case 1:
				w.Send(c, packet.NewConnect())
			case 2:
				w.Send(c, &packet.Pubrel{ID: packet.ID(1 + r.Intn(5))})
			case 3:
				w.Send(c, &packet.Puback{ID: packet.ID(1 + r.Intn(5))})
			default:
				w.Send(c, &packet.Disconnect{})
			}
		case 9:
			w.FailSend(c, 1+r.Intn(3))
		case 10:
			if r.Bool() {
				w.AckMode([]string{"late", "sync", "sync"}[r.Intn(3)])
			} else {
				w.AckRelease()
			}
		}
	}
	w.AckMode("sync")
	w.AckRelease()
	for _, id := range ids {
		if c := cur[id]; w.alive(c) {
			w.AckAll(c)
		}
	}
	w.finish()
	o.Distinct(strings.Join(w.trace, "\n"))
	o.Sample(fmt.Sprintf("%d stimuli/observations, first: %s", len(w.trace), strings.Join(w.trace[:min(len(w.trace), 6)], " ; ")))
}

func TestHarness(t *testing.T) {
	if *fOut == "" {
		t.Skip("no -out")
	}
	o := out.New(*fOut)
	defer o.Close()
	r := gen.New(*fSeed*1000003 + uint64(*fShard) + 4242)
	n := 30
	if *fTier == "thorough" {
		n = 600
	}
	n = n/(*fNShard) + 1
	all := []packet.QOS{0, 1, 2}
	switch *fProp {
	case "C06":
		for i := 0; i < n; i++ {
			p := profile{window: 10, queue: 100, clients: 1 + r.Intn(4), steps: 30 + r.Intn(30), wSub: 6, wUnsub: 2, wPub: 10, wAck: 6, wPing: 1, qos: all, multiFilter: true}
			runCase(t, o, "C06 random history", func() { randomScript(r, o, "C06", p) })
		}
	default:
		t.Fatalf("unknown property %s", *fProp)
	}
	_ = wire.Hx
}
