package brokertrace

import (
	"flag"
	"fmt"
	"github.com/256dpi/gomqtt/broker"
	"strings"
	"sync"
	"testing"
	"time"

	"github.com/256dpi/gomqtt/packet"

	"verifharness/lib/gen"
	"verifharness/lib/out"
	"verifharness/lib/wire"
)

var (
	fProp   = flag.String("prop", "C06", "property")
	fSeed   = flag.Uint64("seed", 1, "seed")
	fTier   = flag.String("tier", "quick", "quick|thorough")
	fOut    = flag.String("out", "", "output directory")
	fShard  = flag.Int("shard", 0, "shard")
	fNShard = flag.Int("nshard", 1, "shards")
)

// ---- peer-side helpers (scripted clients)

func (w *World) Connect(c int, id string, clean bool, will *packet.Message, ka uint16, user, pass string) {
	p := packet.NewConnect()
	p.ClientID, p.CleanSession, p.Will, p.KeepAlive, p.Username, p.Password = id, clean, will, ka, user, pass
	pr := w.peers[c]
	pr.clientID, pr.clean, pr.will = id, clean, will
	w.Send(c, p)
	for _, a := range pr.acks {
		if strings.HasPrefix(a, "connack") && strings.HasSuffix(a, " 0") {
			pr.connected = true
		}
	}
}

func (w *World) nextPid(c int) packet.ID {
	w.seq++
	return packet.ID(1 + (w.seq*7+c)%60000)
}

func (w *World) Subscribe(c int, subs ...packet.Subscription) {
	w.Send(c, &packet.Subscribe{ID: w.nextPid(c), Subscriptions: subs})
}

func (w *World) Unsubscribe(c int, topics ...string) {
	w.Send(c, &packet.Unsubscribe{ID: w.nextPid(c), Topics: topics})
}

// Publish sends a PUBLISH with a unique payload tag; QoS 2 ids are remembered for the PUBREL
func (w *World) Publish(c int, topic string, qos packet.QOS, retain bool, empty bool) string {
	w.seq++
	tag := fmt.Sprintf("m%d", w.seq)
	p := &packet.Publish{Message: packet.Message{Topic: topic, QOS: qos, Retain: retain, Payload: []byte(tag)}}
	if empty {
		p.Message.Payload = nil
	}
	if qos > 0 {
		p.ID = w.nextPid(c)
	}
	if qos == 2 {
		// never hold more QoS 2 handshakes open than the broker has publish tokens (10): the
		// processor would block on the token (that state is outside the model)
		for len(w.peers[c].open2) >= 7 {
			w.Release(c)
		}
		w.peers[c].open2 = append(w.peers[c].open2, p.ID)
	}
	w.Send(c, p)
	return tag
}

// Republish sends a retained PUBLISH that repeats the payload of an earlier one on the same topic (a sensor reporting an
// unchanged value) — possibly at another QoS: the retained message is the most recent publish, QoS included
func (w *World) Republish(c int, topic, tag string, qos packet.QOS) {
	p := &packet.Publish{Message: packet.Message{Topic: topic, QOS: qos, Retain: true, Payload: []byte(tag)}}
	if qos > 0 {
		p.ID = w.nextPid(c)
	}
	if qos == 2 {
		for len(w.peers[c].open2) >= 7 {
			w.Release(c)
		}
		w.peers[c].open2 = append(w.peers[c].open2, p.ID)
	}
	w.Send(c, p)
}

// Release sends the PUBREL for the oldest open QoS 2 publish of c
func (w *World) Release(c int) bool {
	pr := w.peers[c]
	if len(pr.open2) == 0 {
		return false
	}
	id := pr.open2[0]
	pr.open2 = pr.open2[1:]
	pr.released2 = append(pr.released2, id)
	w.Send(c, &packet.Pubrel{ID: id})
	return true
}

// AckOne advances the oldest (or the i-th) unfinished inbound handshake of peer c by one step
func (w *World) AckOne(c int, i int) bool {
	pr := w.peers[c]
	if len(pr.unacked) == 0 {
		return false
	}
	i = i % len(pr.unacked)
	u := pr.unacked[i]
	switch {
	case u.qos == 1:
		pr.unacked = append(pr.unacked[:i], pr.unacked[i+1:]...)
		w.Send(c, &packet.Puback{ID: u.id})
	case !u.rec:
		u.rec = true
		w.Send(c, &packet.Pubrec{ID: u.id})
	default:
		pr.unacked = append(pr.unacked[:i], pr.unacked[i+1:]...)
		w.Send(c, &packet.Pubcomp{ID: u.id})
	}
	return true
}

func (w *World) AckAll(c int) {
	for guard := 0; len(w.peers[c].unacked) > 0 && guard < 500 && w.alive(c); guard++ {
		w.AckOne(c, 0)
	}
}

// Reconnect opens a new connection for the same client id, carrying the peer-side session over
func (w *World) Reconnect(old int, clean bool) int {
	c := w.Conn()
	po := w.peers[old]
	pn := w.peers[c]
	if !clean && !po.clean {
		// the peer keeps its view of unfinished handshakes (it will see duplicates)
		pn.unacked = po.unacked
		pn.open2 = append(append([]packet.ID{}, po.released2...), po.open2...)
	}
	w.Connect(c, po.clientID, clean, po.will, 0, "", "")
	return c
}

var topics = []string{"a", "a/b", "a/c", "b", "a/b/c", "", "/", "a//b"}
var filters = []string{"a", "a/b", "a/+", "a/#", "#", "+", "+/+", "b", "a/b/#", "+/b", "/", "", "a//b", "/#"}

type profile struct {
	window, queue         int
	clients               int
	steps                 int
	wSub, wUnsub, wPub    int
	wAck, wDrop, wRecon   int
	wRelease, wPing, wBad int
	wFail, wLate          int
	wSpur, wIdle          int  // spurious PUBACK for an id not in flight; an idle period longer than the token timeout
	emptyWills            bool // retained wills with an empty payload (they clear the retained message)
	retain                int  // percent of publishes with retain
	wills                 bool
	qos                   []packet.QOS
	multiFilter           bool
	oddTopics             bool // publishes also use topic names with empty levels
}

func pickW(r *gen.Rng, ws []int) int {
	t := 0
	for _, x := range ws {
		t += x
	}
	if t == 0 {
		return 0
	}
	k := r.Intn(t)
	for i, x := range ws {
		if k < x {
			return i
		}
		k -= x
	}
	return 0
}

// what a hostile peer may put into SUBSCRIBE / UNSUBSCRIBE / PUBLISH (the scripted peers bypass the codec, so the
// broker sees them exactly as a decoder that does not validate topics would hand them over)
var hostileFilters = []string{"#/x", "a/#/b", "#/#", "+x", "x+/y", "a/#x", "a\x00b", "\x00", "a/+/#/c", "//", "/+/", strings.Repeat("l/", 300) + "#", strings.Repeat("q", 2000)}
var hostileTopics = []string{"a/+", "#", "a/#", "+/+", "a\x00", "\x00", "//", strings.Repeat("l/", 300) + "x", strings.Repeat("q", 2000)}

// randomScript: clients connect, then a weighted random walk over the stimulus alphabet
func randomScript(r *gen.Rng, o *out.W, prop string, p profile) {
	w := newWorld(o, prop, p.window, p.queue, nil)
	ids := []string{"A", "B", "C", "D", "E", "F"}[:p.clients]
	cur := map[string]int{} // client id -> current connection
	lastRetained := map[string]string{} // topic -> payload tag of the last retained publish of this script
	budget := p.queue - 5   // never let a queue of an online client fill up (the model calls that unsupported)
	sent := 0
	for _, id := range ids {
		c := w.Conn()
		var will *packet.Message
		if p.wills && r.Bool() {
			will = &packet.Message{Topic: topics[r.Intn(3)], Payload: []byte("will-" + id), QOS: p.qos[r.Intn(len(p.qos))], Retain: r.Intn(100) < p.retain}
			if p.emptyWills && r.Intn(3) == 0 {
				will.Payload, will.Retain = []byte{}, true // clears the retained message of its topic
			}
		}
		w.Connect(c, id, r.Intn(3) == 0, will, 0, "", "")
		cur[id] = c
	}
	anyAlive := func() (string, int, bool) {
		for try := 0; try < 20; try++ {
			id := ids[r.Intn(len(ids))]
			if c, ok := cur[id]; ok && w.alive(c) && w.peers[c].connected {
				return id, c, true
			}
		}
		return "", 0, false
	}
	for step := 0; step < p.steps; step++ {
		k := pickW(r, []int{p.wSub, p.wUnsub, p.wPub, p.wAck, p.wDrop, p.wRecon, p.wRelease, p.wPing, p.wBad, p.wFail, p.wLate, p.wSpur, p.wIdle})
		id, c, ok := anyAlive()
		if !ok && k != 5 {
			k = 5
		}
		switch k {
		case 0:
			n := 1
			if p.multiFilter {
				n = 1 + r.Intn(4)
			}
			var subs []packet.Subscription
			for i := 0; i < n; i++ {
				f := filters[r.Intn(len(filters))]
				if p.wBad > 0 && r.Intn(4) == 0 {
					f = hostileFilters[r.Intn(len(hostileFilters))]
				}
				subs = append(subs, packet.Subscription{Topic: f, QOS: p.qos[r.Intn(len(p.qos))]})
			}
			w.Subscribe(c, subs...)
		case 1:
			f := filters[r.Intn(len(filters))]
			if p.wBad > 0 && r.Intn(4) == 0 {
				f = hostileFilters[r.Intn(len(hostileFilters))]
			}
			w.Unsubscribe(c, f)
		case 2:
			if sent >= budget {
				continue
			}
			sent++
			tp := topics[r.Intn(len(topics)-3)+r.Intn(2)*0]
			if p.oddTopics && r.Intn(4) == 0 {
				// valid topic names with empty levels: each is a topic of its own ("a/" is not "a", "a//b" is not "a/b")
				tp = []string{"a/", "a//b", "/", "/a", "a/b/"}[r.Intn(5)]
			}
			if p.wBad > 0 && r.Intn(5) == 0 {
				tp = hostileTopics[r.Intn(len(hostileTopics))]
			}
			if tag, ok := lastRetained[tp]; ok && p.retain > 0 && r.Intn(8) == 0 {
				w.Republish(c, tp, tag, p.qos[r.Intn(len(p.qos))])
				continue
			}
			ret, emp := r.Intn(100) < p.retain, r.Intn(100) < p.retain/4
			tag := w.Publish(c, tp, p.qos[r.Intn(len(p.qos))], ret, emp)
			if ret && !emp {
				lastRetained[tp] = tag
			} else if ret && emp {
				delete(lastRetained, tp)
			}
		case 3:
			if !w.AckOne(c, r.Intn(4)) {
				w.Release(c)
			}
		case 4:
			w.Drop(c)
			_ = id
		case 5:
			// reconnect some client that is gone (or take over a live one)
			id := ids[r.Intn(len(ids))]
			old := cur[id]
			if p.wBad > 0 && r.Intn(5) == 0 && w.alive(old) {
				w.Stall(old)
				nn := w.Reconnect(old, r.Intn(4) == 0) // refused: kill timeout
				_ = nn
				w.Unstall(old)
			}
			cur[id] = w.Reconnect(old, r.Intn(4) == 0)
		case 6:
			w.Release(c)
		case 7:
			w.Send(c, &packet.Pingreq{})
		case 8:
			// out-of-protocol packets
			switch r.Intn(5) {
			case 0:
				w.Send(c, &packet.Connack{})
			case 1:
				w.Send(c, packet.NewConnect())
			case 2:
				w.Send(c, &packet.Pubrel{ID: packet.ID(1 + r.Intn(5))})
			case 3:
				w.Send(c, &packet.Puback{ID: packet.ID(1 + r.Intn(5))})
			default:
				w.Send(c, &packet.Disconnect{})
			}
		case 9:
			w.FailSend(c, 1+r.Intn(3))
		case 10:
			if r.Bool() {
				w.AckMode([]string{"late", "sync", "sync"}[r.Intn(3)])
			} else {
				w.AckRelease()
			}
		case 11:
			// the peer acknowledges something it never received (it widens its own window; what is recorded must still be
			// retransmitted in full when it resumes)
			w.Send(c, &packet.Puback{ID: packet.ID(40000 + r.Intn(1000))})
		case 12:
			w.Idle()
		}
	}
	w.AckMode("sync")
	w.AckRelease()
	for _, id := range ids {
		if c := cur[id]; w.alive(c) {
			w.AckAll(c)
		}
	}
	w.finish()
	o.Distinct(strings.Join(w.trace, "\n"))
	o.Sample(fmt.Sprintf("%d stimuli/observations, first: %s", len(w.trace), strings.Join(w.trace[:min(len(w.trace), 6)], " ; ")))
}

// publisher-side script for C07: retransmissions, repeated / unknown PUBRELs, cuts, ack modes
func c07Script(r *gen.Rng, o *out.W) {
	w := newWorld(o, "C07", 10, 100, nil)
	// one observer so that forwarding is visible end to end
	ob := w.Conn()
	w.Connect(ob, "OBS", true, nil, 0, "", "")
	w.Subscribe(ob, packet.Subscription{Topic: "#", QOS: 2})
	c := w.Conn()
	w.Connect(c, "PUB", false, nil, 0, "", "")
	type slot struct {
		tag  string
		qos  packet.QOS
		open bool // handshake not finished from the publisher's point of view
		rel  bool // PUBREL already sent once
	}
	slots := map[packet.ID]*slot{1: {}, 2: {}}
	late := 0
	unackedLate := 0
	steps := 10 + r.Intn(25)
	for i := 0; i < steps; i++ {
		if !w.alive(c) {
			c = w.Reconnect(c, false)
			continue
		}
		id := packet.ID(1 + r.Intn(2))
		sl := slots[id]
		// completed handshakes: PUBACK/PUBCOMP seen by the peer
		for _, a := range w.peers[c].acks {
			for pid, s2 := range slots {
				if a == fmt.Sprintf("puback %d", pid) || a == fmt.Sprintf("pubcomp %d", pid) {
					s2.open = false
				}
			}
		}
		w.peers[c].acks = nil
		k := r.Intn(9)
		if late > 0 && unackedLate >= 7 && k <= 2 {
			k = 8 // the broker has 10 publish tokens: with a backend that withholds its acknowledgements stay below
		}
		if k <= 2 && late > 0 {
			unackedLate++
		}
		switch k {
		case 0, 1, 2:
			if !sl.open {
				w.seq++
				sl.tag, sl.qos, sl.open, sl.rel = fmt.Sprintf("m%d", w.seq), packet.QOS(1+r.Intn(2)), true, false
				w.Send(c, &packet.Publish{ID: id, Message: packet.Message{Topic: "t/" + sl.tag, QOS: sl.qos, Payload: []byte(sl.tag)}})
			} else if !sl.rel {
				// retransmission of the same message (only legal after a reconnect for QoS 2; harmless here for QoS 1)
				if sl.qos == 1 {
					w.Send(c, &packet.Publish{ID: id, Dup: true, Message: packet.Message{Topic: "t/" + sl.tag, QOS: sl.qos, Payload: []byte(sl.tag)}})
				}
			}
		case 3, 4:
			if sl.open && sl.qos == 2 {
				sl.rel = true
				w.Send(c, &packet.Pubrel{ID: id})
			} else {
				w.Send(c, &packet.Pubrel{ID: packet.ID(3 + r.Intn(3))}) // unknown id
			}
		case 5:
			w.FailSend(c, 1+r.Intn(2))
		case 6:
			w.Drop(c)
			c = w.Reconnect(c, false)
			// a PUBLISH the broker never saw (lost on the broken connection) is retransmitted flagged DUP like the others
			for pid, s2 := range slots {
				if !s2.open && r.Intn(3) == 0 {
					w.seq++
					s2.tag, s2.qos, s2.open, s2.rel = fmt.Sprintf("m%d", w.seq), packet.QOS(1+r.Intn(2)), true, false
					w.Send(c, &packet.Publish{ID: pid, Dup: true, Message: packet.Message{Topic: "t/" + s2.tag, QOS: s2.qos, Payload: []byte(s2.tag)}})
				}
			}
			// after a reconnect the publisher retransmits what is unfinished
			for pid, s2 := range slots {
				if s2.open && r.Intn(4) != 0 {
					if s2.qos == 2 && s2.rel {
						w.Send(c, &packet.Pubrel{ID: pid})
					} else {
						w.Send(c, &packet.Publish{ID: pid, Dup: true, Message: packet.Message{Topic: "t/" + s2.tag, QOS: s2.qos, Payload: []byte(s2.tag)}})
					}
				}
			}
		case 7:
			if late < 5 {
				late++
				w.AckMode("late")
			}
		default:
			w.AckMode("sync")
			w.AckRelease()
			late = 0
			unackedLate = 0
		}
	}
	w.AckMode("sync")
	w.AckRelease()
	if !w.alive(c) {
		c = w.Reconnect(c, false)
	}
	for pid, s2 := range slots {
		if s2.open && s2.qos == 2 {
			if !s2.rel {
				// a PUBLISH is retransmitted only as long as no PUBREL was sent for it
				w.Send(c, &packet.Publish{ID: pid, Dup: true, Message: packet.Message{Topic: "t/" + s2.tag, QOS: 2, Payload: []byte(s2.tag)}})
			}
			w.Send(c, &packet.Pubrel{ID: pid})
		}
	}
	w.AckAll(ob)
	w.finish()
	o.Distinct(strings.Join(w.trace, "\n"))
	o.Sample(fmt.Sprintf("publisher script, %d lines: %s", len(w.trace), strings.Join(w.trace[10:min(len(w.trace), 18)], " ; ")))
}

// offline queueing for C08: a persistent subscriber goes away, messages pile up (beyond the
// queue capacity in some runs), it comes back
func c08Offline(r *gen.Rng, o *out.W) {
	queue := r.Pick(3, 5, 100)
	win := 1 + r.Intn(4)
	w := newWorld(o, "C08", win, queue, nil)
	a := w.Conn()
	w.Connect(a, "PUB", true, nil, 0, "", "")
	b := w.Conn()
	w.Connect(b, "SUB", false, nil, 0, "", "")
	w.Subscribe(b, packet.Subscription{Topic: "x/#", QOS: packet.QOS(r.Intn(3))}, packet.Subscription{Topic: "y", QOS: 2})
	for round := 0; round < 1+r.Intn(3); round++ {
		if r.Bool() {
			w.Send(b, &packet.Disconnect{})
		} else {
			w.Drop(b)
		}
		n := 1 + r.Intn(queue+2)
		if n > 8 {
			n = 8
		}
		for i := 0; i < n; i++ {
			w.Publish(a, []string{"x/1", "y", "x/2/3", "z"}[r.Intn(4)], packet.QOS(r.Intn(3)), false, false)
			if r.Intn(3) != 0 {
				w.Release(a)
			}
		}
		for w.Release(a) {
		}
		if r.Intn(3) == 0 {
			// a resume that is cut while the CONNACK or the first retransmissions are being written; more traffic
			// while the client is offline again; the next resume gets all of it
			c := w.Conn()
			po, pn := w.peers[b], w.peers[c]
			pn.unacked = po.unacked
			pn.open2 = append(append([]packet.ID{}, po.released2...), po.open2...)
			w.FailSend(c, 1+r.Intn(2))
			w.Connect(c, po.clientID, false, po.will, 0, "", "")
			if w.alive(c) {
				w.Drop(c)
			}
			b = c
			for i, k := 0, 1+r.Intn(3); i < k; i++ {
				w.Publish(a, []string{"x/1", "y"}[r.Intn(2)], packet.QOS(1+r.Intn(2)), false, false)
				for w.Release(a) {
				}
			}
		}
		b = w.Reconnect(b, r.Intn(6) == 0)
		if r.Intn(3) == 0 {
			// lose the connection again in the middle of the resend / delivery
			w.AckOne(b, 0)
			w.FailSend(b, 1)
			w.AckOne(b, 0)
			if w.alive(b) {
				w.Drop(b)
			}
			b = w.Reconnect(b, false)
		}
		w.AckAll(b)
		if w.peers[b].clean {
			w.Subscribe(b, packet.Subscription{Topic: "x/#", QOS: 1})
		}
	}
	w.finish()
	o.Distinct(strings.Join(w.trace, "\n"))
	o.Sample(fmt.Sprintf("offline script window=%d queue=%d, %d lines", win, queue, len(w.trace)))
}

// packet ids wrap around (C08): with window 2 a persistent subscriber withholds the acknowledgement of its first delivery
// and acknowledges every later one at once.  After 65534 further deliveries the session's 16-bit id counter is back at the
// id of the withheld one.  MQTT 3.1.1 §2.3.1: a new PUBLISH takes a packet identifier that is currently unused; the
// outgoing store is keyed by id, so a re-used id replaces the record of the unacknowledged message ("stays recorded until
// the client's PUBACK" is broken, the message is not retransmitted after a reconnect).  Every line is checked by the
// model; the script is long (about 460 000 lines), so it runs once per check, on shard 0.
func c08Wrap(o *out.W) {
	w := newWorld(o, "C08", 2, 100, nil)
	w.longCase = true
	p := w.Conn()
	w.Connect(p, "PUB", true, nil, 0, "", "")
	s := w.Conn()
	w.Connect(s, "SUB", false, nil, 0, "", "")
	w.Subscribe(s, packet.Subscription{Topic: "w", QOS: 1})
	first := w.Publish(p, "w", 1, false, false)
	if len(w.peers[s].unacked) != 1 {
		panic("c08Wrap: first delivery missing")
	}
	held := w.peers[s].unacked[0].id // never acknowledged on this connection
	rounds, lastTag, lastID := 0, "", packet.ID(0)
	for rounds < 65535+10 && w.alive(s) && w.alive(p) {
		rounds++
		lastTag = w.Publish(p, "w", 1, false, false)
		g := w.peers[s].got
		lastID = g[len(g)-1].ID
		if rounds >= 65535 || lastID == held {
			break // the delivery that had to step over the id still in use
		}
		w.AckOne(s, 1)
	}
	o.Count(fmt.Sprintf("c08wrap/rounds-%d", rounds))
	// the connection is lost with (at least) the first delivery unacknowledged; the session is resumed
	w.Drop(s)
	s2 := w.Reconnect(s, false)
	dups := 0
	for _, g := range w.peers[s2].got {
		if g.Dup {
			dups++
		}
	}
	w.AckAll(s2)
	w.finish()
	o.Distinct("c08 wrap")
	o.Sample(fmt.Sprintf("id wrap: window 2, %q held under id %d, %d further deliveries, the last one (%q) under id %d; %d retransmissions after the resume; %d lines", first, held, rounds, lastTag, lastID, dups, len(w.trace)))
}

// termination causes for C12
func c12Script(r *gen.Rng, o *out.W) {
	creds := map[string]string(nil)
	if r.Intn(4) == 0 {
		creds = map[string]string{"user": "pass"}
	}
	w := newWorld(o, "C12", 2+r.Intn(3), 100, creds)
	obs := w.Conn()
	user, pass := "", ""
	if creds != nil {
		user, pass = "user", "pass"
	}
	w.Connect(obs, "OBS", false, nil, 0, user, pass)
	w.Subscribe(obs, packet.Subscription{Topic: "will/#", QOS: 2})
	if r.Bool() {
		w.Drop(obs) // offline persistent observer
	}
	w.seq++
	will := &packet.Message{Topic: "will/" + fmt.Sprint(w.seq), Payload: []byte(fmt.Sprintf("will-%d", w.seq)), QOS: packet.QOS(r.Intn(3)), Retain: r.Bool()}
	c := w.Conn()
	state := r.Intn(6)
	cause := r.Intn(14)
	desc := fmt.Sprintf("state=%d cause=%d", state, cause)
	o.Count("c12/" + desc)
	ka := uint16(0)
	if cause == 12 {
		ka = 2
	}
	if cause == 8 && creds != nil {
		w.Connect(c, "V", r.Bool(), will, 0, "user", "wrong") // rejected authentication
	} else if cause == 9 {
		// never accepted: the holder of the client id cannot finish dying, Setup runs into the kill timeout
		old := c
		w.Connect(old, "V", r.Bool(), nil, 0, user, pass)
		w.Stall(old)
		c = w.Conn()
		w.Connect(c, "V", r.Bool(), will, 0, user, pass)
		w.Unstall(old)
	} else if cause == 10 {
		// never accepted: the backend is shutting down when the CONNECT arrives
		w.BackendClose()
		w.Connect(c, "V", r.Bool(), will, 0, user, pass)
	} else {
		if state == 0 {
			// the cause strikes before CONNECT
		} else {
			w.Connect(c, "V", r.Bool(), will, ka, user, pass)
		}
		switch state {
		case 2: // mid inbound QoS 2 handshake
			w.Publish(c, "q", 2, false, false)
		case 3: // mid outbound handshake
			w.Subscribe(c, packet.Subscription{Topic: "q", QOS: 2})
			w.Publish(c, "q", 2, false, false)
			w.Release(c)
		case 4: // window full
			w.Subscribe(c, packet.Subscription{Topic: "q", QOS: 1})
			for i := 0; i < 6; i++ {
				w.Publish(c, "q", 1, false, false)
			}
		case 5: // accepted, but still busy retransmitting what the resumed session holds
			w.Subscribe(c, packet.Subscription{Topic: "q", QOS: 1})
			w.Publish(c, "q", 1, false, false)
			w.Publish(c, "q", 1, false, false)
			w.Drop(c)
			c2 := w.Conn()
			w.peers[c2].unacked = w.peers[c].unacked
			w.FailSend(c2, 2) // the CONNACK goes out, the first retransmission fails
			w.seq++
			will = &packet.Message{Topic: "will/" + fmt.Sprint(w.seq), Payload: []byte(fmt.Sprintf("will-%d", w.seq)), QOS: will.QOS, Retain: will.Retain}
			w.Connect(c2, "V", false, will, ka, user, pass)
			c = c2
		}
		if w.alive(c) {
			switch cause {
			case 0:
				w.Send(c, &packet.Disconnect{})
			case 1:
				w.Drop(c)
			case 2:
				w.Send(c, &packet.Connack{}) // out-of-protocol
			case 3:
				w.Send(c, packet.NewConnect()) // second / first-not-accepted connect
			case 4:
				n := w.Conn()
				w.Connect(n, "V", r.Bool(), nil, 0, user, pass) // displaced by a newer connection
			case 5:
				w.BackendClose()
			case 6:
				w.FailSend(c, 1)
				w.Send(c, &packet.Pingreq{})
			case 7:
				w.Send(c, &packet.Suback{ID: 1, ReturnCodes: []packet.QOS{0}}) // server-only packet
			case 11:
				// DISCONNECT while closing the connection reports an error (unflushed output, peer gone): still a clean end
				w.FailClose(c)
				w.Send(c, &packet.Disconnect{})
			case 12:
				if state != 0 {
					w.KeepAliveExpire(c)
				} else {
					w.Drop(c)
				}
			case 13:
				// the DISCONNECT has been read, but before the broker acts on it the connection starts dying for another
				// reason (what a takeover or a shutdown does to it): it still ended with a DISCONNECT — no will
				cc := c
				w.mu.Lock()
				w.onDisconnect[cc] = func() {
					w.clients[cc].Close()
					<-w.clients[cc].Closing()
				}
				w.mu.Unlock()
				w.Send(c, &packet.Disconnect{})
			default:
				w.Drop(c)
			}
		}
	}
	// a late subscriber sees a retained will
	if cause != 5 && cause != 10 {
		l := w.Conn()
		w.Connect(l, "LATE", true, nil, 0, user, pass)
		w.Subscribe(l, packet.Subscription{Topic: "will/#", QOS: 1})
		if !w.alive(obs) {
			obs = w.Reconnect(obs, false)
		}
		w.AckAll(obs)
		w.AckAll(l)
	}
	w.finish()
	o.Distinct(desc + fmt.Sprint(will.QOS, will.Retain))
	o.Sample("termination " + desc)
}

// request/response and pre-connect behaviour for C20
func c20Script(r *gen.Rng, o *out.W) {
	creds := map[string]string(nil)
	if r.Bool() {
		creds = map[string]string{"user": "pass"}
	}
	w := newWorld(o, "C20", 10, 100, creds)
	c := w.Conn()
	mk := func(k int) packet.Generic {
		switch k {
		case 0:
			p := packet.NewConnect()
			p.ClientID = "X"
			if creds != nil && r.Intn(3) != 0 {
				p.Username, p.Password = "user", "pass"
			} else if r.Intn(3) == 0 {
				p.Username, p.Password = "user", "nope"
			}
			if r.Bool() {
				p.Will = &packet.Message{Topic: "w", Payload: []byte("will-x"), QOS: 1}
			}
			return p
		case 1:
			return &packet.Connack{}
		case 2:
			w.seq++
			return &packet.Publish{ID: packet.ID(100 + w.seq), Message: packet.Message{Topic: "zzz", QOS: packet.QOS(r.Intn(2)), Payload: []byte(fmt.Sprintf("m%d", w.seq))}}
		case 3:
			return &packet.Puback{ID: packet.ID(1 + r.Intn(3))}
		case 4:
			return &packet.Pubrec{ID: packet.ID(1 + r.Intn(3))}
		case 5:
			return &packet.Pubrel{ID: packet.ID(1 + r.Intn(3))}
		case 6:
			return &packet.Pubcomp{ID: packet.ID(1 + r.Intn(3))}
		case 7:
			p := &packet.Subscribe{ID: packet.ID(1 + r.Intn(65535))}
			for i, n := 0, 1+r.Intn(8); i < n; i++ {
				p.Subscriptions = append(p.Subscriptions, packet.Subscription{Topic: filters[r.Intn(len(filters))], QOS: packet.QOS(r.Intn(3))})
			}
			return p
		case 8:
			return &packet.Suback{ID: 3, ReturnCodes: []packet.QOS{1}}
		case 9:
			return &packet.Unsubscribe{ID: packet.ID(1 + r.Intn(65535)), Topics: []string{filters[r.Intn(len(filters))]}}
		case 10:
			return &packet.Unsuback{ID: 4}
		case 11:
			return &packet.Pingreq{}
		case 12:
			return &packet.Pingresp{}
		}
		return &packet.Disconnect{}
	}
	first := r.Intn(14)
	if r.Bool() {
		first = 0
	}
	desc := fmt.Sprintf("first=%d", first)
	w.Send(c, mk(first))
	n := 1 + r.Intn(3)
	for i := 0; i < n && w.alive(c); i++ {
		if r.Intn(3) == 0 {
			// pipelined requests
			var ps []packet.Generic
			for j, m := 0, 2+r.Intn(5); j < m; j++ {
				ps = append(ps, mk(r.Pick(7, 7, 9, 11, 11, 2)))
			}
			// the QoS of a delivery is decided by a race between dequeuer and processor when a later request of the same
			// batch changes the grant of a filter matching a message published earlier in it: keep such batches out
			seenPub := false
			for _, p := range ps {
				switch q := p.(type) {
				case *packet.Publish:
					seenPub = true
				case *packet.Subscribe:
					for j := range q.Subscriptions {
						if seenPub && tmatch(q.Subscriptions[j].Topic, "zzz") {
							q.Subscriptions[j].Topic = "a/b"
						}
					}
				case *packet.Unsubscribe:
					for j := range q.Topics {
						if seenPub && tmatch(q.Topics[j], "zzz") {
							q.Topics[j] = "a/b"
						}
					}
				}
			}
			w.SendBatch(c, ps)
			desc += " batch"
		} else {
			k := r.Intn(14)
			if r.Intn(3) != 0 {
				k = r.Pick(7, 9, 11, 2, 5)
			}
			desc += fmt.Sprintf(" %d", k)
			w.Send(c, mk(k))
		}
	}
	w.finish()
	o.Distinct(desc + fmt.Sprint(creds != nil))
	o.Sample("C20 " + desc)
}

// long request/response runs on one connection (C20): more requests of each kind than the broker has tokens
// (ClientParallelSubscribes / ClientParallelPublishes = 10), one at a time and in pipelined batches — every one must be
// answered, so every token taken must have come back
func c20Long(r *gen.Rng, o *out.W) {
	w := newWorld(o, "C20", 10, 100, nil)
	c := w.Conn()
	w.Connect(c, "L", r.Bool(), nil, 0, "", "")
	w.mustSurvive[c] = true
	kinds := []string{"sub", "unsub", "pub1", "pub2", "ping"}
	focus := kinds[r.Intn(len(kinds))]
	n := 12 + r.Intn(14)
	for i := 0; i < n && w.alive(c); i++ {
		k := focus
		if r.Intn(4) == 0 {
			k = kinds[r.Intn(len(kinds))]
		}
		switch k {
		case "sub":
			w.Subscribe(c, packet.Subscription{Topic: fmt.Sprintf("l/%d", r.Intn(4)), QOS: packet.QOS(r.Intn(3))})
		case "unsub":
			w.Unsubscribe(c, fmt.Sprintf("l/%d", r.Intn(4)))
		case "pub1":
			w.Publish(c, "x/y", 1, false, false)
		case "pub2":
			w.Publish(c, "x/y", 2, false, false)
			w.Release(c)
		default:
			w.Send(c, &packet.Pingreq{})
		}
		if r.Intn(3) == 0 {
			w.AckAll(c)
		}
	}
	w.AckAll(c)
	w.finish()
	o.Distinct("long " + focus + fmt.Sprint(n))
	o.Sample(fmt.Sprintf("C20 long run: %d requests, mostly %s", n, focus))
}

// a client that floods itself (C14): it subscribes to what it publishes and never acknowledges, so its window and then
// its own queue fill up; the broker refuses the next publish (queue full) and closes it; its will goes to the same full
// queue and fails too — the connection must still be terminated exactly once and nobody else is disturbed.  Only the
// flooder's own session matches the flood, so the outcome does not depend on the order in which the backend walks its
// sessions.
func c14OwnQueue(r *gen.Rng, o *out.W) {
	q := 2 + r.Intn(3)
	w := newWorld(o, "C14", 1, q, nil)
	wit := w.Conn()
	w.Connect(wit, "W", true, nil, 0, "", "")
	w.Subscribe(wit, packet.Subscription{Topic: "other/#", QOS: 1})
	w.mustSurvive[wit] = true
	c := w.Conn()
	var will *packet.Message
	if r.Intn(4) != 0 {
		will = &packet.Message{Topic: "x/will", Payload: []byte("will-own"), QOS: packet.QOS(1 + r.Intn(2))}
	}
	w.Connect(c, "V", r.Bool(), will, 0, "", "")
	w.Subscribe(c, packet.Subscription{Topic: "x/#", QOS: packet.QOS(1 + r.Intn(2))})
	for i := 0; i < q+4 && w.alive(c); i++ {
		w.Publish(c, "x/y", packet.QOS(1+r.Intn(2)), false, false)
		if r.Intn(3) == 0 {
			w.Publish(wit, "other/z", 1, false, false)
			w.AckAll(wit)
		}
	}
	w.Publish(wit, "other/z", 1, false, false)
	w.AckAll(wit)
	w.finish()
	o.Distinct(strings.Join(w.trace, "\n"))
	o.Sample(fmt.Sprintf("own-queue flood, queue %d, %d lines", q, len(w.trace)))
}

// deliveries wait in the session queue (window 1, first delivery unacknowledged) while the subscriber changes the
// subscriptions they were queued under — unsubscribes the only matching filter, lowers or raises its grant, adds an
// overlapping one — and only then acknowledges: whatever comes out is capped by the grant it was queued under (C06),
// and so are retained replays (C11)
func c06Backlog(r *gen.Rng, o *out.W, prop string) {
	w := newWorld(o, prop, 1, 100, nil)
	s := w.Conn()
	w.Connect(s, "S", r.Bool(), nil, 0, "", "")
	p := w.Conn()
	w.Connect(p, "P", true, nil, 0, "", "")
	filters := []string{"#", "a/#", "a/+", "a/b", "+/b"}
	qs := func() packet.QOS { return packet.QOS(r.Intn(3)) }
	retained := prop == "C11"
	if retained {
		for _, tp := range []string{"a/b", "a/c", "d"} {
			if r.Intn(4) != 0 {
				w.Publish(p, tp, qs(), true, false)
				if len(w.peers[p].open2) > 0 {
					w.Release(p)
				}
			}
		}
	}
	// use up the window: one QoS 1 delivery that stays unacknowledged for now
	w.Subscribe(s, packet.Subscription{Topic: "hold", QOS: 1})
	w.Publish(p, "hold", 1, false, false)
	f := filters[r.Intn(len(filters))]
	w.Subscribe(s, packet.Subscription{Topic: f, QOS: qs()})
	for i := 0; i < 2+r.Intn(4); i++ {
		w.Publish(p, []string{"a/b", "a/b", "a/c"}[r.Intn(3)], qs(), retained && r.Intn(3) == 0, false)
		if len(w.peers[p].open2) > 0 {
			w.Release(p)
		}
	}
	for i := 0; i < 1+r.Intn(3); i++ {
		switch r.Intn(4) {
		case 0, 1:
			w.Unsubscribe(s, f)
		case 2:
			w.Subscribe(s, packet.Subscription{Topic: f, QOS: qs()})
		default:
			w.Subscribe(s, packet.Subscription{Topic: filters[r.Intn(len(filters))], QOS: qs()})
		}
	}
	for round := 0; round < 40 && w.alive(s) && len(w.peers[s].unacked) > 0; round++ {
		w.AckAll(s)
	}
	w.finish()
	o.Distinct(strings.Join(w.trace, "\n"))
	o.Sample(fmt.Sprintf("backlog under %q, %d lines", f, len(w.trace)))
}

// more retained messages match a SUBSCRIBE than the session queue holds: the broker may give up on the subscriber
// (it closes it), but it must not acknowledge the subscription and stay silent about part of the retained set
func c11Overflow(r *gen.Rng, o *out.W, prop string) {
	q := 2 + r.Intn(3)
	// monitors only: WHICH of the matching retained messages still fit into the queue depends on the order in which the
	// retained tree is walked (Go map order) — the model walks it in its own order
	nextNoModel = true
	w := newWorld(o, prop, 1, q, nil)
	w.concurrent = false
	p := w.Conn()
	w.Connect(p, "P", true, nil, 0, "", "")
	k := q + 3 + r.Intn(3)
	for i := 0; i < k; i++ {
		w.Publish(p, fmt.Sprintf("r/%d", i), packet.QOS(r.Intn(2)), true, false)
	}
	s := w.Conn()
	w.Connect(s, "S", r.Bool(), nil, 0, "", "")
	w.Subscribe(s, packet.Subscription{Topic: []string{"r/#", "r/+", "#"}[r.Intn(3)], QOS: packet.QOS(r.Intn(3))})
	if w.alive(s) {
		w.AckAll(s)
		w.Send(s, &packet.Pingreq{})
	}
	w.finish()
	o.Distinct(strings.Join(w.trace, "\n"))
	o.Sample(fmt.Sprintf("%d retained messages into a queue of %d, %d lines", k, q, len(w.trace)))
}

// a subscriber that does not acknowledge asks for more retained messages than its queue holds (C14): the broker may
// drop it, but nobody else may have to wait for it
func c14RetainedFlood(r *gen.Rng, o *out.W) {
	q := 1 + r.Intn(3)
	nextNoModel = true // monitors only (see c11Overflow: which retained messages fit depends on Go's map order)
	w := newWorld(o, "C14", 1, q, nil)
	w.concurrent = false
	wit := w.Conn()
	w.Connect(wit, "W", true, nil, 0, "", "")
	w.Subscribe(wit, packet.Subscription{Topic: "w/#", QOS: 1})
	w.mustSurvive[wit] = true
	for i, k := 0, q+3+r.Intn(3); i < k; i++ {
		w.Publish(wit, fmt.Sprintf("r/%d", i), 1, true, false)
	}
	h := w.Conn()
	w.Connect(h, "H", r.Bool(), nil, 0, "", "")
	w.Subscribe(h, packet.Subscription{Topic: "r/#", QOS: 1}) // never acknowledges what it gets
	w.Publish(wit, "w/x", 1, false, false)
	w.AckAll(wit)
	c := w.Conn()
	w.Connect(c, "N", true, nil, 0, "", "")
	w.mustSurvive[c] = true
	w.Publish(c, "w/y", 1, false, false)
	w.AckAll(wit)
	w.finish()
	o.Distinct(strings.Join(w.trace, "\n"))
	o.Sample(fmt.Sprintf("retained flood towards a silent subscriber, queue %d, %d lines", q, len(w.trace)))
}

// the backend is shut down while nobody (or somebody) is connected; connections that arrive afterwards must be turned
// away and released, not left hanging (C14: shutdown leaves nothing blocked)
func c14AfterClose(r *gen.Rng, o *out.W) {
	w := newWorld(o, "C14", 10, 100, nil)
	if r.Bool() {
		c := w.Conn()
		w.Connect(c, "E", r.Bool(), nil, 0, "", "")
		if r.Bool() {
			w.Send(c, &packet.Disconnect{})
		}
	}
	w.BackendClose()
	for i, n := 0, 1+r.Intn(2); i < n; i++ {
		c := w.Conn()
		w.mustRelease = append(w.mustRelease, c)
		w.Connect(c, []string{"E", "L"}[r.Intn(2)], r.Bool(), nil, 0, "", "")
	}
	w.finish()
	o.Distinct(strings.Join(w.trace, "\n"))
	o.Sample(fmt.Sprintf("connect after shutdown, %d lines", len(w.trace)))
}

// the publisher's own queue is full when its QoS 2 message is released (C07): the backend has already queued the
// message for the sessions it visited first, then refuses; the publisher is closed with the message still stored and
// the PUBREL it retransmits on the resumed session hands the message on a second time
func c07QueueFull(r *gen.Rng, o *out.W) {
	w := newWorld(o, "C07", 1, 1, nil)
	s := w.Conn()
	w.Connect(s, "S", true, nil, 0, "", "")
	w.Subscribe(s, packet.Subscription{Topic: "t", QOS: 2})
	p := w.Conn()
	w.Connect(p, "P", false, nil, 0, "", "")
	w.Subscribe(p, packet.Subscription{Topic: "t", QOS: 1}, packet.Subscription{Topic: "u", QOS: 1})
	q := w.Conn()
	w.Connect(q, "Q", true, nil, 0, "", "")
	w.Publish(q, "u", 1, false, false) // delivered to P, never acknowledged: P's window (1) is used up
	w.Publish(q, "u", 1, false, false) // queued for P: P's queue (1) is full
	w.Publish(p, "t", 2, false, false)
	w.Release(p) // PUBREL: S gets the message, P's own queue is full, Backend.Publish fails, P is closed
	if !w.alive(p) {
		p2 := w.Reconnect(p, false)
		for _, id := range w.peers[p].open2 {
			w.Send(p2, &packet.Pubrel{ID: id})
		}
		for _, id := range w.peers[p].released2 {
			w.Send(p2, &packet.Pubrel{ID: id})
		}
		w.AckAll(p2)
	}
	w.AckAll(s)
	w.finish()
	o.Distinct("queue-full" + fmt.Sprint(r.Intn(1)))
	o.Sample(fmt.Sprintf("publisher queue full, %d lines", len(w.trace)))
}

// concurrent storm (C06, C13, C14): one goroutine per peer fires its whole program without waiting for the broker, several
// peers share a client id (overlapping takeovers), so the broker's processors, ackers and dequeuers really run in parallel.
// No model verdict (the model steps at quiescence); judged by the order-insensitive monitors: process crash / deadlock
// (a bubble that cannot drain panics), terminate exactly once, closed signal, one live connection per id when the newcomer
// gets its CONNACK, will count, request/response pairing, duplicate or unjustified deliveries, window, QoS 2 hand-over.
func concStorm(r *gen.Rng, o *out.W, prop string) {
	nextNoModel = true
	w := newWorld(o, prop, 2+r.Intn(8), 100, nil)
	nids := 1 + r.Intn(3)
	n := 3 + r.Intn(6)
	type prog struct {
		c  int
		ps []packet.Generic
	}
	var progs []prog
	for i := 0; i < n; i++ {
		c := w.Conn()
		id := []string{"A", "B", "C"}[r.Intn(nids)]
		clean := r.Intn(3) == 0
		var will *packet.Message
		if r.Bool() {
			w.seq++
			will = &packet.Message{Topic: topics[r.Intn(3)], Payload: []byte(fmt.Sprintf("will-%d", w.seq)), QOS: packet.QOS(r.Intn(3))}
		}
		pr := w.peers[c]
		pr.clientID, pr.clean, pr.will = id, clean, will
		cp := packet.NewConnect()
		cp.ClientID, cp.CleanSession, cp.Will = id, clean, will
		ps := []packet.Generic{cp}
		for j, m := 0, r.Intn(8); j < m; j++ {
			switch r.Intn(6) {
			case 0, 1:
				var subs []packet.Subscription
				for k, kk := 0, 1+r.Intn(3); k < kk; k++ {
					subs = append(subs, packet.Subscription{Topic: filters[r.Intn(len(filters))], QOS: packet.QOS(r.Intn(3))})
				}
				ps = append(ps, &packet.Subscribe{ID: w.nextPid(c), Subscriptions: subs})
			case 2, 3:
				w.seq++
				q := packet.QOS(r.Intn(3))
				pb := &packet.Publish{Message: packet.Message{Topic: topics[r.Intn(len(topics)-3)], QOS: q, Payload: []byte(fmt.Sprintf("m%d", w.seq))}}
				if q > 0 {
					pb.ID = w.nextPid(c)
				}
				ps = append(ps, pb)
				if q == 2 {
					ps = append(ps, &packet.Pubrel{ID: pb.ID})
				}
			case 4:
				ps = append(ps, &packet.Pingreq{})
			default:
				ps = append(ps, &packet.Unsubscribe{ID: w.nextPid(c), Topics: []string{filters[r.Intn(len(filters))]}})
			}
		}
		if r.Intn(6) == 0 {
			ps = append(ps, &packet.Disconnect{})
		}
		progs = append(progs, prog{c, ps})
	}
	var wg sync.WaitGroup
	for _, pg := range progs {
		wg.Add(1)
		go func(pg prog) {
			defer wg.Done()
			for _, p := range pg.ps {
				w.Fire(pg.c, p)
			}
		}(pg)
	}
	wg.Wait()
	w.settle()
	for _, pg := range progs {
		for _, a := range w.peers[pg.c].acks {
			if strings.HasPrefix(a, "connack") && strings.HasSuffix(a, " 0") {
				w.peers[pg.c].connected = true
			}
		}
	}
	// the peers now acknowledge what they received, one step at a time
	for round := 0; round < 20; round++ {
		any := false
		for _, pg := range progs {
			if w.alive(pg.c) && w.peers[pg.c].connected && len(w.peers[pg.c].unacked) > 0 {
				w.AckAll(pg.c)
				any = true
			}
		}
		if !any {
			break
		}
	}
	w.finish()
	o.Distinct(fmt.Sprintf("storm %d peers %d ids %d", n, nids, len(w.trace)))
	o.Sample(fmt.Sprintf("concurrent storm: %d peers, %d client ids, %d history lines", n, nids, len(w.trace)))
}

// the largest topics the codec admits (C14): a 65535-byte level and a filter / name 3000 levels deep, subscribed, matched,
// delivered and removed again next to a witness (kept to one short script: the Lean model is slow on such values)
func c14Huge(r *gen.Rng, o *out.W) {
	w := newWorld(o, "C14", 10, 100, nil)
	wit := w.Conn()
	w.Connect(wit, "W", true, nil, 0, "", "")
	w.Subscribe(wit, packet.Subscription{Topic: "other/#", QOS: 1})
	w.mustSurvive[wit] = true
	c := w.Conn()
	w.Connect(c, "H", true, nil, 0, "", "")
	w.mustSurvive[c] = true
	wide := strings.Repeat("q", 65535)
	deep := strings.Repeat("l/", 3000)
	if r.Bool() {
		w.Subscribe(c, packet.Subscription{Topic: wide, QOS: 1})
		w.Publish(wit, wide, 1, false, false)
		w.AckAll(c)
		w.Unsubscribe(c, wide)
	} else {
		w.Subscribe(c, packet.Subscription{Topic: deep + "#", QOS: 1})
		w.Publish(wit, deep+"x", 1, r.Bool(), false)
		w.AckAll(c)
		w.Unsubscribe(c, deep+"#")
	}
	w.Publish(c, "other/z", 1, false, false)
	w.AckAll(wit)
	w.finish()
	o.Distinct("huge")
	o.Sample(fmt.Sprintf("huge topics, %d lines", len(w.trace)))
}

// subscriptions racing retained publishes (C11): each subscriber fires CONNECT and exactly one SUBSCRIBE r/# while
// publishers fire retained publishes, each on a topic of its own.  Storing the subscription and replaying the retained
// messages is one atomic step with respect to a publish (update retained, then fan out), so every subscriber gets every
// message exactly once — live if its subscription came first, replayed (flagged retained) if the publish came first.
// Monitors only.
func c11Storm(r *gen.Rng, o *out.W) {
	nextNoModel = true
	w := newWorld(o, "C11", 10, 100, nil)
	type prog struct {
		c  int
		ps []packet.Generic
	}
	var progs []prog
	var subs []int
	tags := map[string]bool{}
	nsub, npub := 1+r.Intn(3), 1+r.Intn(3)
	for i := 0; i < nsub; i++ {
		c := w.Conn()
		pr := w.peers[c]
		pr.clientID, pr.clean = fmt.Sprintf("S%d", i), true
		cp := packet.NewConnect()
		cp.ClientID, cp.CleanSession = pr.clientID, true
		progs = append(progs, prog{c, []packet.Generic{cp, &packet.Subscribe{ID: w.nextPid(c), Subscriptions: []packet.Subscription{{Topic: "r/#", QOS: 1}}}}})
		subs = append(subs, c)
	}
	for i := 0; i < npub; i++ {
		c := w.Conn()
		pr := w.peers[c]
		pr.clientID, pr.clean = fmt.Sprintf("P%d", i), true
		cp := packet.NewConnect()
		cp.ClientID, cp.CleanSession = pr.clientID, true
		ps := []packet.Generic{cp}
		for j, m := 0, 1+r.Intn(4); j < m; j++ {
			w.seq++
			tag := fmt.Sprintf("m%d", w.seq)
			tags[tag] = true
			ps = append(ps, &packet.Publish{ID: w.nextPid(c), Message: packet.Message{Topic: "r/" + tag, QOS: 1, Retain: true, Payload: []byte(tag)}})
		}
		progs = append(progs, prog{c, ps})
	}
	var wg sync.WaitGroup
	for _, pg := range progs {
		wg.Add(1)
		go func(pg prog) {
			defer wg.Done()
			for _, p := range pg.ps {
				w.Fire(pg.c, p)
			}
		}(pg)
	}
	wg.Wait()
	w.settle()
	for _, pg := range progs {
		for _, a := range w.peers[pg.c].acks {
			if strings.HasPrefix(a, "connack") && strings.HasSuffix(a, " 0") {
				w.peers[pg.c].connected = true
			}
		}
	}
	for round := 0; round < 20; round++ {
		any := false
		for _, c := range subs {
			if w.alive(c) && len(w.peers[c].unacked) > 0 {
				w.AckAll(c)
				any = true
			}
		}
		if !any {
			break
		}
	}
	for _, c := range subs {
		if !w.alive(c) {
			continue
		}
		got := map[string]int{}
		for _, p := range w.peers[c].got {
			if !p.Dup {
				got[string(p.Message.Payload)]++
			}
		}
		for tag := range tags {
			if got[tag] != 1 {
				w.hit("subscribe-publish-not-atomic", fmt.Sprintf("connection %d subscribed r/# once while %q was published retained once: it received the message %d times (live and replayed copies counted), expected exactly once", c, tag, got[tag]))
			}
		}
	}
	w.finish()
	o.Distinct(fmt.Sprintf("c11 storm %d %d", nsub, npub))
	o.Sample(fmt.Sprintf("subscribe/retained-publish storm: %d subscribers, %d publishers", nsub, npub))
}

// the backend is shut down while clients connect, subscribe and publish (C14 "including while the broker is shutting
// down"): nothing may panic or stay blocked, every connection is released and every session that was set up is
// terminated exactly once.  Monitors only.
func c14ShutdownStorm(r *gen.Rng, o *out.W) {
	nextNoModel = true
	w := newWorld(o, "C14", 1+r.Intn(3), 2+r.Intn(100), nil)
	type prog struct {
		c  int
		ps []packet.Generic
	}
	var progs []prog
	// some clients are already connected (and subscribed) when the shutdown begins
	for i, n := 0, r.Intn(3); i < n; i++ {
		c := w.Conn()
		w.mustRelease = append(w.mustRelease, c)
		w.Connect(c, fmt.Sprintf("E%d", i), r.Bool(), nil, 0, "", "")
		w.Subscribe(c, packet.Subscription{Topic: "s/#", QOS: packet.QOS(r.Intn(3))})
	}
	for i, n := 0, 1+r.Intn(4); i < n; i++ {
		c := w.Conn()
		w.mustRelease = append(w.mustRelease, c)
		pr := w.peers[c]
		pr.clientID, pr.clean = fmt.Sprintf("N%d", i%3), r.Bool()
		cp := packet.NewConnect()
		cp.ClientID, cp.CleanSession = pr.clientID, pr.clean
		if r.Bool() {
			cp.Will = &packet.Message{Topic: "s/will", Payload: []byte(fmt.Sprintf("will-%d", i)), QOS: packet.QOS(r.Intn(3))}
			pr.will = cp.Will
		}
		ps := []packet.Generic{cp}
		for j, m := 0, r.Intn(4); j < m; j++ {
			switch r.Intn(3) {
			case 0:
				ps = append(ps, &packet.Subscribe{ID: w.nextPid(c), Subscriptions: []packet.Subscription{{Topic: "s/#", QOS: packet.QOS(r.Intn(3))}}})
			case 1:
				w.seq++
				ps = append(ps, &packet.Publish{ID: w.nextPid(c), Message: packet.Message{Topic: "s/x", QOS: 1, Retain: r.Bool(), Payload: []byte(fmt.Sprintf("m%d", w.seq))}})
			default:
				ps = append(ps, &packet.Pingreq{})
			}
		}
		progs = append(progs, prog{c, ps})
	}
	var wg sync.WaitGroup
	for _, pg := range progs {
		wg.Add(1)
		go func(pg prog) {
			defer wg.Done()
			for _, p := range pg.ps {
				w.Fire(pg.c, p)
			}
		}(pg)
	}
	wg.Add(1)
	go func() {
		defer wg.Done()
		w.o.Count("stim/bclose-concurrent")
		w.record(ev{kind: "bclose"})
		w.be.Close(time.Second)
	}()
	wg.Wait()
	w.settle()
	// latecomers after the shutdown
	for i, n := 0, r.Intn(2); i < n; i++ {
		c := w.Conn()
		w.mustRelease = append(w.mustRelease, c)
		w.Connect(c, "L", r.Bool(), nil, 0, "", "")
	}
	w.finish()
	o.Distinct(fmt.Sprintf("c14 shutdown storm %d", len(progs)))
	o.Sample(fmt.Sprintf("shutdown storm: %d programs", len(progs)))
}

// a slow subscriber blocks a publisher and then goes away (C14): the subscriber never acknowledges, its window and its
// queue fill up, the next matching publish waits inside the backend for room; when the subscriber's connection ends the
// publisher must be released, the subscriber terminated, and everybody else keeps working.  The model does not cover a
// publish that waits on another online client's queue (it answers `unsupported`: the rest of the case is judged by the
// monitors and the watchdog only).
func c14SlowSubscriber(r *gen.Rng, o *out.W) {
	q := 1 + r.Intn(2)
	w := newWorld(o, "C14", 1, q, nil)
	wit := w.Conn()
	w.Connect(wit, "W", true, nil, 0, "", "")
	w.Subscribe(wit, packet.Subscription{Topic: "other/#", QOS: 0})
	w.mustSurvive[wit] = true
	s := w.Conn()
	w.Connect(s, "S", r.Bool(), nil, 0, "", "")
	w.Subscribe(s, packet.Subscription{Topic: "x/#", QOS: 1})
	p := w.Conn()
	w.Connect(p, "P", true, nil, 0, "", "")
	w.mustSurvive[p] = true
	for i := 0; i < q+2; i++ {
		w.Publish(p, "x/y", 1, false, false) // the last one waits for room in S's queue
	}
	w.Drop(s) // the slow subscriber goes away
	w.Publish(p, "other/z", 0, false, false)
	w.Publish(wit, "other/z", 0, false, false)
	w.Send(p, &packet.Pingreq{})
	w.finish()
	o.Distinct(fmt.Sprintf("slow subscriber q=%d", q))
	o.Sample(fmt.Sprintf("slow subscriber blocks a publisher, queue %d, %d lines", q, len(w.trace)))
}

// a long stream towards a subscriber whose queue is small (C16): the publisher has to wait inside the backend for
// room again and again, the subscriber acknowledges promptly — everything arrives, nothing stalls.  (A publish waiting
// on another online client's queue is outside the model's envelope: monitors and watchdog judge.)
func c16SmallQueue(r *gen.Rng, o *out.W) {
	q := 2 + r.Intn(4)
	win := 1 + r.Intn(3)
	w := newWorld(o, "C16", win, q, nil)
	s := w.Conn()
	w.Connect(s, "S", r.Bool(), nil, 0, "", "")
	w.Subscribe(s, packet.Subscription{Topic: "x/#", QOS: packet.QOS(1 + r.Intn(2))})
	w.mustSurvive[s] = true
	p := w.Conn()
	w.Connect(p, "P", true, nil, 0, "", "")
	w.mustSurvive[p] = true
	for i, n := 0, q+win+3+r.Intn(6); i < n; i++ {
		w.Publish(p, "x/y", 1, false, false)
		if r.Intn(3) == 0 {
			w.AckOne(s, 0)
		}
	}
	w.AckAll(s)
	w.Send(p, &packet.Pingreq{})
	w.finish()
	o.Distinct(fmt.Sprintf("small queue q=%d win=%d", q, win))
	o.Sample(fmt.Sprintf("long stream into a queue of %d, window %d, %d lines", q, win, len(w.trace)))
}

// a peer that pipelines requests and then stops reading (C20): its own answers wait until it reads again, but nobody
// else's do — a second client connects, subscribes and pings while the first one's writes are stuck.  Monitors only.
func c20SilentPeer(r *gen.Rng, o *out.W) {
	nextNoModel = true
	w := newWorld(o, "C20", 10, 100, nil)
	w.concurrent = false
	a := w.Conn()
	w.Connect(a, "A", true, nil, 0, "", "")
	w.HoldSends(a)
	var ps []packet.Generic
	for i, n := 0, 3+r.Intn(6); i < n; i++ {
		switch r.Intn(3) {
		case 0:
			ps = append(ps, &packet.Subscribe{ID: w.nextPid(a), Subscriptions: []packet.Subscription{{Topic: fmt.Sprintf("s/%d", i), QOS: packet.QOS(r.Intn(3))}}})
		case 1:
			ps = append(ps, &packet.Unsubscribe{ID: w.nextPid(a), Topics: []string{fmt.Sprintf("s/%d", i)}})
		default:
			w.seq++
			ps = append(ps, &packet.Publish{ID: w.nextPid(a), Message: packet.Message{Topic: "p", QOS: 1, Payload: []byte(fmt.Sprintf("m%d", w.seq))}})
		}
	}
	w.SendBatch(a, ps)
	b := w.Conn()
	w.mustSurvive[b] = true
	w.Connect(b, "B", true, nil, 0, "", "")
	if !w.peers[b].connected {
		w.hit("request-unanswered", fmt.Sprintf("connection %d sent CONNECT while another client's writes were stuck (it had stopped reading) and got no CONNACK", b))
	}
	w.Subscribe(b, packet.Subscription{Topic: "q", QOS: 1})
	w.Send(b, &packet.Pingreq{})
	w.ReleaseSends(a)
	w.Send(a, &packet.Pingreq{})
	w.finish()
	o.Distinct(fmt.Sprintf("silent peer %d", len(ps)))
	o.Sample(fmt.Sprintf("a peer pipelines %d requests and stops reading", len(ps)))
}

// a subscriber that reads slowly (C06): its writes are held, QoS 0 and QoS 1 publishes pile up beyond its session
// queue — the publisher waits for room — and when it reads again every message arrives, once.  Monitors only (a publish
// waiting on another online client's queue is outside the model).
func c06SlowReader(r *gen.Rng, o *out.W) {
	nextNoModel = true
	q := 2 + r.Intn(3)
	w := newWorld(o, "C06", 10, q, nil)
	w.concurrent = false
	s := w.Conn()
	w.Connect(s, "S", r.Bool(), nil, 0, "", "")
	w.Subscribe(s, packet.Subscription{Topic: "x/#", QOS: packet.QOS(r.Intn(2))})
	w.mustSurvive[s] = true
	p := w.Conn()
	w.Connect(p, "P", true, nil, 0, "", "")
	w.HoldSends(s)
	for i, n := 0, q+3+r.Intn(4); i < n; i++ {
		w.Publish(p, "x/y", packet.QOS(r.Intn(2)), false, false)
	}
	w.ReleaseSends(s)
	w.AckAll(s)
	w.Send(p, &packet.Pingreq{})
	w.finish()
	o.Distinct(fmt.Sprintf("slow reader q=%d", q))
	o.Sample(fmt.Sprintf("slow reader, queue %d, %d lines", q, len(w.trace)))
}

// the backend fails right after the client was accepted (C20): Restore returns an error when the CONNACK has already
// been sent — the connection is closed, and never gets a second CONNACK.  Monitors only (the model has no failing
// backend calls).
func c20RestoreFails(r *gen.Rng, o *out.W) {
	nextNoModel = true
	w := newWorld(o, "C20", 10, 100, nil)
	c := w.Conn()
	w.Connect(c, "R", false, nil, 0, "", "")
	w.Subscribe(c, packet.Subscription{Topic: "r", QOS: 1})
	w.Publish(c, "r", 1, false, false)
	w.Drop(c)
	c2 := w.Conn()
	w.peers[c2].unacked = w.peers[c].unacked
	w.mu.Lock()
	w.failRestore = true
	w.mu.Unlock()
	w.Connect(c2, "R", r.Bool(), nil, 0, "", "")
	w.Send(c2, &packet.Pingreq{})
	w.finish()
	o.Distinct("restore fails")
	o.Sample("Backend.Restore fails after the CONNACK")
}

// an observer that is busy when the will is due (C12): its window is used up and its session queue is full, so the
// will waits inside the backend for room; once the observer acknowledges, the will arrives — exactly once.  (Outside the
// model's envelope, see c14SlowSubscriber.)
func c12BusyObserver(r *gen.Rng, o *out.W) {
	w := newWorld(o, "C12", 1, 1, nil)
	obs := w.Conn()
	w.Connect(obs, "OBS", r.Bool(), nil, 0, "", "")
	w.Subscribe(obs, packet.Subscription{Topic: "will/#", QOS: 1})
	w.mustSurvive[obs] = true
	p := w.Conn()
	w.Connect(p, "P", true, nil, 0, "", "")
	w.Publish(p, "will/x", 1, false, false) // delivered to OBS, not acknowledged: window used
	w.Publish(p, "will/x", 1, false, false) // queued: queue full
	v := w.Conn()
	w.seq++
	will := &packet.Message{Topic: "will/v", Payload: []byte(fmt.Sprintf("will-%d", w.seq)), QOS: packet.QOS(1 + r.Intn(2))}
	w.Connect(v, "V", true, will, 0, "", "")
	w.Drop(v) // the will has to wait for room in OBS's queue
	w.AckAll(obs)
	w.AckAll(obs)
	w.finish()
	o.Distinct("busy observer")
	o.Sample("will towards an observer whose window and queue are full")
}

// takeover storms for C13
func c13Script(r *gen.Rng, o *out.W) {
	w := newWorld(o, "C13", 1+r.Intn(3), 100, nil)
	p := w.Conn()
	w.Connect(p, "PUB", true, nil, 0, "", "")
	cur := w.Conn()
	w.Connect(cur, "V", false, &packet.Message{Topic: "w", Payload: []byte("will-v0"), QOS: 1}, 0, "", "")
	w.Subscribe(cur, packet.Subscription{Topic: "t", QOS: 2}, packet.Subscription{Topic: "w", QOS: 1})
	for i, n := 0, 2+r.Intn(8); i < n; i++ {
		switch r.Intn(6) {
		case 0, 1:
			w.Publish(p, "t", packet.QOS(r.Intn(3)), false, false)
		case 2:
			w.AckOne(cur, r.Intn(3))
		case 3:
			// the holder acknowledges an id it was never sent: its window widens, the session then records more
			// unacknowledged deliveries than the window has slots — all of them pass to a newcomer
			if w.alive(cur) {
				w.Send(cur, &packet.Puback{ID: packet.ID(40000 + r.Intn(1000))})
				w.Publish(p, "t", packet.QOS(1+r.Intn(2)), false, false)
			}
		default:
			// a newer connection with the same id while the old one is idle / mid-handshake / dying
			if r.Intn(4) == 0 {
				w.FailSend(cur, 1)
			}
			if r.Intn(4) == 0 {
				w.Drop(cur)
			}
			// an inbound QoS 2 handshake of the old connection is still open (PUBREC sent, PUBREL outstanding): it belongs
			// to the session and is finished by the newcomer
			midQos2 := r.Intn(3) == 0 && w.alive(cur)
			if midQos2 {
				w.Publish(cur, "t", 2, false, false)
			}
			stalledOld := 0
			if r.Intn(4) == 0 && w.alive(cur) {
				// the old connection cannot finish dying: the takeover runs into the kill timeout
				w.Stall(cur)
				stalledOld = cur
			}
			old := cur
			cur = w.Conn()
			po := w.peers[old]
			pn := w.peers[cur]
			clean := r.Intn(4) == 0
			if !clean {
				pn.unacked = po.unacked
			}
			w.seq++
			w.Connect(cur, "V", clean, &packet.Message{Topic: "w", Payload: []byte(fmt.Sprintf("will-v%d", w.seq)), QOS: 1}, 0, "", "")
			if stalledOld != 0 {
				w.Unstall(stalledOld)
				// the newcomer was refused; try again now that the old connection is gone
				nn := w.Conn()
				w.peers[nn].unacked = w.peers[cur].unacked
				cur = nn
				w.seq++
				w.Connect(cur, "V", clean, &packet.Message{Topic: "w", Payload: []byte(fmt.Sprintf("will-v%d", w.seq)), QOS: 1}, 0, "", "")
			}
			if clean {
				w.Subscribe(cur, packet.Subscription{Topic: "t", QOS: 1}, packet.Subscription{Topic: "w", QOS: 1})
			} else if midQos2 && w.alive(cur) {
				// the publisher side of the handshake moved to the new connection with the session
				pn := w.peers[cur]
				pn.open2 = append(pn.open2, po.open2...)
				po.open2 = nil
				w.Release(cur)
			}
		}
	}
	w.AckAll(cur)
	w.finish()
	o.Distinct(strings.Join(w.trace, "\n"))
	o.Sample(fmt.Sprintf("takeover script, %d lines", len(w.trace)))
}

// takeover storms around a stuck old connection (C13): while the old holder of the id cannot finish
// dying, newcomers are refused (kill timeout); none of them may be installed next to it, and later
// connections must still find whoever holds the id — temporary (clean) sessions included
func c13Stalled(r *gen.Rng, o *out.W) {
	w := newWorld(o, "C13", 1+r.Intn(3), 100, nil)
	will := func() *packet.Message {
		w.seq++
		return &packet.Message{Topic: "w", Payload: []byte(fmt.Sprintf("will-v%d", w.seq)), QOS: 1}
	}
	obs := w.Conn()
	w.Connect(obs, "OBS", true, nil, 0, "", "")
	w.Subscribe(obs, packet.Subscription{Topic: "w", QOS: 0})
	old := w.Conn()
	w.Connect(old, "V", r.Intn(3) != 0, will(), 0, "", "")
	w.Stall(old)
	for i, n := 0, 1+r.Intn(3); i < n; i++ {
		c := w.Conn()
		w.Connect(c, "V", r.Intn(3) != 0, will(), 0, "", "")
	}
	w.Unstall(old)
	for i, n := 0, 1+r.Intn(3); i < n; i++ {
		c := w.Conn()
		w.Connect(c, "V", r.Intn(3) != 0, will(), 0, "", "")
	}
	w.finish()
	o.Distinct(strings.Join(w.trace, "\n"))
	o.Sample(fmt.Sprintf("stalled takeover script, %d lines", len(w.trace)))
}

// a takeover while the old connection's dequeuer is held up between two deliveries and more traffic for the session is
// queued: whatever the old dequeuer still takes from the queue while it is being closed must end up with the newcomer
func c13StalledBacklog(r *gen.Rng, o *out.W) {
	nextNoModel = true // the model has no dequeuer that is parked in mid-delivery: monitors only
	w := newWorld(o, "C13", 2+r.Intn(3), 100, nil)
	w.concurrent = false // (the peers still act one at a time)
	pub := w.Conn()
	w.Connect(pub, "PUB", true, nil, 0, "", "")
	old := w.Conn()
	w.Connect(old, "V", false, nil, 0, "", "")
	w.Subscribe(old, packet.Subscription{Topic: "t", QOS: packet.QOS(1 + r.Intn(2))})
	if r.Bool() {
		w.StallAt(old, broker.MessageForwarded) // the first delivery goes out, then its dequeuer is held up
	} else {
		w.Stall(old)
	}
	for i, n := 0, 2+r.Intn(3); i < n; i++ {
		w.Publish(pub, "t", packet.QOS(1+r.Intn(2)), false, false)
		if len(w.peers[pub].open2) > 0 {
			w.Release(pub)
		}
	}
	c := w.Conn()
	w.Connect(c, "V", false, nil, 0, "", "") // refused after the kill timeout, or accepted: the old one is closed either way
	w.Unstall(old)
	if !w.alive(c) || !w.peers[c].connected {
		c = w.Conn()
		w.Connect(c, "V", false, nil, 0, "", "")
	}
	if w.alive(c) {
		w.AckAll(c)
	}
	w.finish()
	o.Distinct(strings.Join(w.trace, "\n"))
	o.Sample(fmt.Sprintf("stalled takeover with backlog, %d lines", len(w.trace)))
}

// resume with several unacknowledged messages (C15: retransmission order)
func c15Resume(r *gen.Rng, o *out.W) {
	win := 4 + r.Intn(7)
	w := newWorld(o, "C15", win, 100, nil)
	a := w.Conn()
	w.Connect(a, "PUB", true, nil, 0, "", "")
	b := w.Conn()
	w.Connect(b, "SUB", false, nil, 0, "", "")
	w.Subscribe(b, packet.Subscription{Topic: "t/#", QOS: 2})
	for round := 0; round < 1+r.Intn(3); round++ {
		n := 3 + r.Intn(win)
		for i := 0; i < n; i++ {
			w.Publish(a, "t/x", packet.QOS(1+r.Intn(2)), false, false)
			w.Release(a)
		}
		// acknowledge a few, in any order; PUBRECs move their id to the end of the transmission order
		for i, k := 0, r.Intn(4); i < k; i++ {
			w.AckOne(b, r.Intn(6))
		}
		if r.Bool() {
			w.Drop(b)
		} else {
			w.FailSend(b, 1)
			w.Publish(a, "t/y", 1, false, false)
			if w.alive(b) {
				w.Drop(b)
			}
		}
		b = w.Reconnect(b, false)
		for i, k := 0, r.Intn(3); i < k; i++ {
			w.AckOne(b, r.Intn(6))
		}
	}
	w.AckAll(b)
	w.finish()
	o.Distinct(strings.Join(w.trace, "\n"))
	o.Sample(fmt.Sprintf("resume script window=%d, %d lines", win, len(w.trace)))
}

func TestHarness(t *testing.T) {
	if *fOut == "" {
		t.Skip("no -out")
	}
	o := out.New(*fOut)
	defer o.Close()
	r := gen.New(*fSeed*1000003 + uint64(*fShard) + 4242)
	n := 480
	if *fTier == "thorough" {
		n = 16000
	}
	n = n/(*fNShard) + 1
	// the package defaults the model's configuration relies on
	runCase(t, o, "defaults", func() {
		w := newWorld(o, *fProp, 10, 100, nil)
		w.be.ClientInflightMessages = 0 // left to the package: the effective values show on the connected client
		c := w.Conn()
		w.Connect(c, "D", true, nil, 0, "", "")
		cl := w.clients[c]
		o.Op(fmt.Sprintf("br defaults %d %d %d %d", cl.InflightMessages, cl.ParallelPublishes, cl.ParallelSubscribes, broker.NewMemoryBackend().SessionQueueSize), "ok")
		w.finish()
	})
	all := []packet.QOS{0, 1, 2}
	rs := func(name string, p func() profile) {
		for i := 0; i < n; i++ {
			pp := p()
			runCase(t, o, name, func() { randomScript(r, o, *fProp, pp) })
		}
	}
	sc := func(name string, f func(*gen.Rng, *out.W)) {
		for i := 0; i < n; i++ {
			runCase(t, o, name, func() { f(r, o) })
		}
	}
	switch *fProp {
	case "C06":
		rs("C06 random history", func() profile {
			// small windows too: messages then sit in the session queue while subscriptions change
			return profile{window: []int{1, 2, 3, 10, 10}[r.Intn(5)], queue: 100, clients: 1 + r.Intn(5), steps: 30 + r.Intn(40), wSub: 6, wUnsub: 3, wPub: 10, wAck: []int{2, 7}[r.Intn(2)], wPing: 1, qos: all, multiFilter: true}
		})
		sc("C06 backlog", func(r *gen.Rng, o *out.W) { c06Backlog(r, o, "C06") })
		if *fShard < 4 {
			for i := 0; i < 4; i++ {
				runCase(t, o, "C06 slow reader", func() { c06SlowReader(r, o) })
			}
		}
		sc("C06 concurrent storm", func(r *gen.Rng, o *out.W) { concStorm(r, o, "C06") })
	case "C07":
		sc("C07 publisher script", c07Script)
		runCase(t, o, "C07 publisher queue full", func() { c07QueueFull(r, o) })
	case "C08":
		sc("C08 offline", c08Offline)
		rs("C08 subscriber behaviours", func() profile {
			return profile{window: 1 + r.Intn(4), queue: 100, clients: 2 + r.Intn(2), steps: 30 + r.Intn(40), wSub: 3, wPub: 10, wAck: 6, wDrop: 2, wRecon: 3, wFail: 2, wSpur: 1, qos: all}
		})
		if *fShard == 0 {
			runCase(t, o, "C08 id wrap", func() { c08Wrap(o) })
		}
	case "C11":
		rs("C11 retained", func() profile {
			return profile{window: 10, queue: 100, clients: 2 + r.Intn(3), steps: 30 + r.Intn(40), wSub: 8, wUnsub: 1, wPub: 10, wAck: 6, wDrop: 1, wRecon: 2, retain: 60, wills: true, emptyWills: true, qos: all, multiFilter: true, oddTopics: true}
		})
		sc("C11 backlog", func(r *gen.Rng, o *out.W) { c06Backlog(r, o, "C11") })
		if *fShard < 4 {
			for i := 0; i < 8; i++ {
				runCase(t, o, "C11 retained overflow", func() { c11Overflow(r, o, "C11") })
			}
		}
		sc("C11 subscribe/publish storm", c11Storm)
	case "C12":
		sc("C12 termination", c12Script)
		if *fShard < 4 {
			runCase(t, o, "C12 busy observer", func() { c12BusyObserver(r, o) })
		}
	case "C13":
		sc("C13 takeover", c13Script)
		sc("C13 concurrent storm", func(r *gen.Rng, o *out.W) { concStorm(r, o, "C13") })
		sc("C13 stalled takeover", c13Stalled)
		sc("C13 stalled takeover with backlog", c13StalledBacklog)
	case "C14":
		rs("C14 hostile", func() profile {
			return profile{window: 2 + r.Intn(4), queue: 100, clients: 2 + r.Intn(4), steps: 30 + r.Intn(40), wSub: 4, wUnsub: 1, wPub: 8, wAck: 4, wDrop: 3, wRecon: 4, wRelease: 1, wPing: 1, wBad: 6, wFail: 3, retain: 20, wills: true, qos: all, multiFilter: true}
		})
		sc("C14 own queue", c14OwnQueue)
		if *fShard < 4 {
			for i := 0; i < 4; i++ {
				runCase(t, o, "C14 retained flood", func() { c14RetainedFlood(r, o) })
			}
		}
		if *fShard < 4 {
			for i := 0; i < 6; i++ {
				runCase(t, o, "C14 connect after shutdown", func() { c14AfterClose(r, o) })
			}
		}
		if *fShard < 4 {
			runCase(t, o, "C14 slow subscriber", func() { c14SlowSubscriber(r, o) })
		}
		if *fShard < 2 {
			runCase(t, o, "C14 huge topics", func() { c14Huge(r, o) })
		}
		sc("C14 concurrent storm", func(r *gen.Rng, o *out.W) { concStorm(r, o, "C14") })
		sc("C14 shutdown storm", c14ShutdownStorm)
	case "C15":
		sc("C15 resume order", c15Resume)
		rs("C15 ordering", func() profile {
			return profile{window: 1 + r.Intn(10), queue: 100, clients: 2 + r.Intn(4), steps: 40 + r.Intn(60), wSub: 2, wPub: 14, wAck: 8, wDrop: 1, wRecon: 2, wFail: 1, qos: all}
		})
	case "C16":
		rs("C16 window", func() profile {
			return profile{window: 1 + r.Intn(4), queue: 100, clients: 2, steps: 40 + r.Intn(60), wSub: 2, wPub: 14, wAck: 9, wDrop: 1, wRecon: 2, wIdle: 1, qos: all}
		})
		if *fShard < 4 {
			for i := 0; i < 4; i++ {
				runCase(t, o, "C16 small queue", func() { c16SmallQueue(r, o) })
			}
		}
	case "C20":
		sc("C20 request/response", c20Script)
		sc("C20 long runs", c20Long)
		if *fShard < 4 {
			runCase(t, o, "C20 silent peer", func() { c20SilentPeer(r, o) })
			runCase(t, o, "C20 retained overflow", func() { c11Overflow(r, o, "C20") })
			runCase(t, o, "C20 restore fails", func() { c20RestoreFails(r, o) })
		}
	default:
		t.Fatalf("unknown property %s", *fProp)
	}
	_ = wire.Hx
}
