// Package brokertrace drives the real broker (broker.Client + MemoryBackend from /repo) inside a
// testing/synctest bubble with scripted peers and reports stimuli and observations in the line
// protocol of lean/Drv/Broker.lean.  Built as a test binary because synctest needs *testing.T.
package brokertrace

import (
	"errors"
	"fmt"
	"io"
	"net"
	"os"
	"runtime"
	"strings"
	"sync"
	"testing"
	"testing/synctest"
	"time"

	"github.com/256dpi/gomqtt/broker"
	"github.com/256dpi/gomqtt/packet"

	"verifharness/lib/out"
	"verifharness/lib/wire"
)

// ---------------------------------------------------------------- fake connection

type fconn struct {
	w         *World
	id        int
	in        chan packet.Generic
	mu        sync.Mutex
	closed    bool // broker side closed
	peerGone  bool
	cl        chan struct{}
	nsent     int
	failAt    int // fail the failAt-th send from now (1-based); 0 = never
	timeout   time.Duration
	deadline  time.Time
	failClose bool // Close() reports an error (the connection is closed all the same)
	hold      chan struct{} // while set, Send waits (a peer that does not read: the carrier's buffers are full)
}

func (c *fconn) Send(p packet.Generic, async bool) error {
	c.mu.Lock()
	h := c.hold
	c.mu.Unlock()
	if h != nil {
		select {
		case <-h:
		case <-c.cl:
		}
	}
	c.mu.Lock()
	defer c.mu.Unlock()
	if c.closed || c.peerGone {
		return errors.New("connection closed")
	}
	p = clonePacket(p)
	c.nsent++
	if c.failAt > 0 {
		c.failAt--
		if c.failAt == 0 {
			c.w.logf("obs sendfail %d %s", c.id, wire.ShowPacket(p))
			c.w.record(ev{kind: "sendfail", conn: c.id, pkt: p, txt: wire.ShowPacket(p)})
			c.closeLocked()
			return errors.New("injected send failure")
		}
	}
	c.w.logf("obs sent %d %s", c.id, wire.ShowPacket(p))
	c.w.record(ev{kind: "sent", conn: c.id, pkt: p, txt: wire.ShowPacket(p)})
	c.w.delivered(c.id, p)
	return nil
}

func (c *fconn) Receive() (packet.Generic, error) {
	var timer <-chan time.Time
	c.mu.Lock()
	if c.timeout > 0 {
		timer = time.After(time.Until(c.deadline))
	}
	c.mu.Unlock()
	select {
	case p := <-c.in:
		c.mu.Lock()
		if c.timeout > 0 {
			c.deadline = time.Now().Add(c.timeout)
		}
		c.mu.Unlock()
		return p, nil
	case <-c.cl:
		return nil, io.EOF
	case <-timer:
		c.Close()
		return nil, errors.New("read timeout")
	}
}

func (c *fconn) closeLocked() {
	if !c.closed {
		c.closed = true
		c.w.logf("obs closed %d", c.id)
		c.w.record(ev{kind: "closed", conn: c.id})
		select {
		case <-c.cl:
		default:
			close(c.cl)
		}
	}
}

func (c *fconn) Close() error {
	c.mu.Lock()
	defer c.mu.Unlock()
	c.closeLocked()
	if c.failClose {
		return errors.New("injected close failure")
	}
	return nil
}

// peerClose: the scripted peer hangs up
func (c *fconn) peerClose() {
	c.mu.Lock()
	defer c.mu.Unlock()
	c.peerGone = true
	select {
	case <-c.cl:
	default:
		close(c.cl)
	}
}

func (c *fconn) SetReadLimit(int64) {}
func (c *fconn) SetReadTimeout(d time.Duration) {
	c.mu.Lock()
	c.timeout = d
	c.deadline = time.Now().Add(d)
	c.mu.Unlock()
}
func (c *fconn) SetMaxWriteDelay(time.Duration) {}
func (c *fconn) LocalAddr() net.Addr            { return nil }
func (c *fconn) RemoteAddr() net.Addr           { return nil }

// ---------------------------------------------------------------- wrapping backend

type wrapBackend struct {
	*broker.MemoryBackend
	w       *World
	mode    string // sync | late | never
	pending []broker.Ack
	mu      sync.Mutex
}

func (b *wrapBackend) connOf(c *broker.Client) int {
	if fc, ok := c.Conn().(*fconn); ok {
		return fc.id
	}
	return -1
}

func (b *wrapBackend) wrapAck(ack broker.Ack) broker.Ack {
	if ack == nil {
		return nil
	}
	b.mu.Lock()
	mode := b.mode
	b.mu.Unlock()
	switch mode {
	case "late":
		return func() {
			b.mu.Lock()
			b.pending = append(b.pending, ack)
			b.mu.Unlock()
		}
	case "never":
		return func() {}
	}
	return ack
}

func (b *wrapBackend) Setup(c *broker.Client, id string, clean bool) (broker.Session, bool, error) {
	s, resumed, err := b.MemoryBackend.Setup(c, id, clean)
	if err == nil {
		r := "0"
		if resumed {
			r = "1"
		}
		b.w.logf("obs setup %d %s", b.connOf(c), r)
		b.w.record(ev{kind: "setup", conn: b.connOf(c), txt: r})
	}
	return s, resumed, err
}

func (b *wrapBackend) Subscribe(c *broker.Client, subs []packet.Subscription, ack broker.Ack) error {
	return b.MemoryBackend.Subscribe(c, subs, b.wrapAck(ack))
}

func (b *wrapBackend) Unsubscribe(c *broker.Client, topics []string, ack broker.Ack) error {
	return b.MemoryBackend.Unsubscribe(c, topics, b.wrapAck(ack))
}

func (b *wrapBackend) Publish(c *broker.Client, msg *packet.Message, ack broker.Ack) error {
	b.w.logf("obs bpublish %d %s", b.connOf(c), wire.ShowMessage(msg))
	b.w.record(ev{kind: "bpublish", conn: b.connOf(c), txt: wire.ShowMessage(msg), pkt: &packet.Publish{Message: *msg.Copy()}})
	b.w.mu.Lock()
	b.w.bpublishes[b.connOf(c)] = append(b.w.bpublishes[b.connOf(c)], wire.ShowMessage(msg))
	b.w.mu.Unlock()
	err := b.MemoryBackend.Publish(c, msg, b.wrapAck(ack))
	if err != nil {
		// the backend refused (the publisher's own queue is full) — possibly after it had already queued the message
		// for sessions it visited earlier
		b.w.record(ev{kind: "bpublish-refused", conn: b.connOf(c), txt: wire.ShowMessage(msg), pkt: &packet.Publish{Message: *msg.Copy()}})
	}
	return err
}

// Restore can be made to fail once (the backend refuses after the client was accepted and got its CONNACK)
func (b *wrapBackend) Restore(c *broker.Client) error {
	b.w.mu.Lock()
	fail := b.w.failRestore
	b.w.failRestore = false
	b.w.mu.Unlock()
	if fail {
		return errors.New("injected restore failure")
	}
	return b.MemoryBackend.Restore(c)
}

func (b *wrapBackend) Terminate(c *broker.Client) error {
	b.w.logf("obs terminate %d", b.connOf(c))
	b.w.record(ev{kind: "terminate", conn: b.connOf(c)})
	b.w.mu.Lock()
	b.w.terminates[b.connOf(c)]++
	b.w.mu.Unlock()
	return b.MemoryBackend.Terminate(c)
}

func (b *wrapBackend) release() {
	b.mu.Lock()
	p := b.pending
	b.pending = nil
	b.mu.Unlock()
	for _, a := range p {
		a()
	}
}

// ---------------------------------------------------------------- world

type inflight struct {
	id  packet.ID
	qos packet.QOS
	rec bool // PUBREC sent, PUBREL received
	tag string
}

type peer struct {
	clientID  string
	clean     bool
	connected bool
	got       []*packet.Publish // every PUBLISH received on this connection
	unacked   []*inflight       // QoS>0 deliveries not yet completed by this peer
	pubrels   []packet.ID       // PUBRELs received (resent) awaiting our PUBCOMP
	open2     []packet.ID       // our own QoS2 publishes awaiting PUBREL
	released2 []packet.ID       // PUBREL sent, PUBCOMP not yet seen
	acks      []string          // SUBACK/UNSUBACK/PUBACK/PUBREC/PUBCOMP/PINGRESP/CONNACK received
	will      *packet.Message
}

// ev is one entry of the global, ordered event history of a case (stimuli and observations)
type ev struct {
	kind string // stim-send stim-drop stim-conn sent sendfail closed bpublish terminate setup bclose ackrelease
	conn int
	pkt  packet.Generic // copy (for sent / stim-send)
	txt  string
}

type World struct {
	hist         []ev
	o            *out.W
	prop         string
	be           *broker.MemoryBackend
	wb           *wrapBackend
	conns        map[int]*fconn
	clients      map[int]*broker.Client
	peers        map[int]*peer
	nconn        int
	mu           sync.Mutex
	log          []string
	trace        []string
	bpublishes   map[int][]string
	terminates   map[int]int
	window       int
	queue        int
	seq          int
	stalled      map[int]chan struct{}
	mustSurvive  map[int]bool
	creds        map[string]string
	failRestore  bool           // the next Backend.Restore fails
	onDisconnect map[int]func() // run when the broker has read a DISCONNECT from that connection, before it acts on it
	lastHeard    map[int]time.Time
	stallOnly    map[int]broker.LogEvent // Stall restricted to one log event
	mustRelease  []int                   // connections the broker has to close by the end of the case (turned away)
	noModel      bool           // monitors only: the model is not asked (lines are written as comments)
	longCase     bool           // a very long, regular script: monitor hits carry the head and the tail of the trace only
	concurrent   bool           // stimuli were fired concurrently: order-sensitive monitors are switched off
}

func newWorld(o *out.W, prop string, window, queue int, creds map[string]string) *World {
	w := &World{o: o, prop: prop, conns: map[int]*fconn{}, clients: map[int]*broker.Client{}, peers: map[int]*peer{},
		bpublishes: map[int][]string{}, terminates: map[int]int{}, window: window, queue: queue}
	w.noModel, w.concurrent = nextNoModel, nextNoModel
	curWorld = w
	nextNoModel = false
	w.be = broker.NewMemoryBackend()
	w.be.ClientInflightMessages = window
	w.be.SessionQueueSize = queue
	w.be.Credentials = creds
	w.creds = creds
	w.wb = &wrapBackend{MemoryBackend: w.be, w: w, mode: "sync"}
	w.stalled = map[int]chan struct{}{}
	w.mustSurvive = map[int]bool{}
	w.onDisconnect = map[int]func(){}
	// a logger that can hold up a connection's goroutines (they all report through it)
	w.be.Logger = func(ev broker.LogEvent, c *broker.Client, pkt packet.Generic, _ *packet.Message, lerr error) {
		if lerr != nil && debugLog {
			fmt.Fprintf(os.Stderr, "debug: conn %d %v: %v (trace line %d)\n", w.wb.connOf(c), ev, lerr, len(w.trace))
		}
		w.mu.Lock()
		ch := w.stalled[w.wb.connOf(c)]
		if only, ok := w.stallOnly[w.wb.connOf(c)]; ok && only != ev {
			ch = nil
		}
		var hook func()
		if _, isDisc := pkt.(*packet.Disconnect); isDisc && ev == broker.PacketReceived {
			hook = w.onDisconnect[w.wb.connOf(c)]
			delete(w.onDisconnect, w.wb.connOf(c))
		}
		w.mu.Unlock()
		if hook != nil {
			hook()
		}
		if ch != nil {
			<-ch
		}
	}
	cs := "-"
	if creds != nil {
		var l []string
		for u, p := range creds {
			l = append(l, wire.HxS(u)+":"+wire.HxS(p))
		}
		cs = strings.Join(l, ",")
	}
	w.op(fmt.Sprintf("br new %d %d %s", window, queue, cs))
	return w
}

func (w *World) logf(f string, a ...interface{}) {
	w.mu.Lock()
	w.log = append(w.log, fmt.Sprintf(f, a...))
	w.mu.Unlock()
}

func (w *World) record(e ev) {
	w.mu.Lock()
	w.hist = append(w.hist, e)
	w.mu.Unlock()
}

// clonePacket snapshots a packet (the broker keeps mutating some of them, e.g. the dup flag)
func clonePacket(p packet.Generic) packet.Generic {
	buf := make([]byte, p.Len())
	if _, err := p.Encode(buf); err != nil {
		return p
	}
	q, _ := p.Type().New()
	if _, err := q.Decode(buf); err != nil {
		return p
	}
	return q
}

// nextNoModel makes the next world a monitors-only world (set by the concurrent scripts before newWorld)
var nextNoModel bool

func (w *World) op(line string) {
	w.mu.Lock()
	w.trace = append(w.trace, line)
	w.mu.Unlock()
	if w.noModel {
		w.o.Op("# "+line, "# "+line) // echoed by the driver: no model verdict for concurrently fired stimuli
		return
	}
	w.o.Op(line, "ok")
}

// Fire hands a packet to connection c without waiting for the broker (concurrent scripts; monitors only)
func (w *World) Fire(c int, p packet.Generic) {
	w.o.Count("stim/fire/" + wire.TypeName(p.Type()))
	w.record(ev{kind: "stim-send", conn: c, pkt: clonePacket(p), txt: wire.ShowPacket(p)})
	fc := w.conns[c]
	fc.mu.Lock()
	dead := fc.closed || fc.peerGone
	fc.mu.Unlock()
	if !dead {
		select {
		case fc.in <- clonePacket(p):
		default:
		}
	}
}

// delivered is called (under the conn lock) for every packet the broker wrote to a peer
func (w *World) delivered(c int, p packet.Generic) {
	w.mu.Lock()
	defer w.mu.Unlock()
	pr := w.peers[c]
	if pr == nil {
		return
	}
	switch x := p.(type) {
	case *packet.Publish:
		cp := *x
		cp.Message.Payload = append([]byte{}, x.Message.Payload...)
		pr.got = append(pr.got, &cp)
		if x.Message.QOS > 0 {
			found := false
			for _, u := range pr.unacked {
				if u.id == x.ID {
					found = true
				}
			}
			if !found {
				pr.unacked = append(pr.unacked, &inflight{id: x.ID, qos: x.Message.QOS, tag: string(x.Message.Payload)})
			}
		}
	case *packet.Pubrel:
		pr.pubrels = append(pr.pubrels, x.ID)
	default:
		pr.acks = append(pr.acks, wire.ShowPacket(p))
	}
}

// Stall holds up connection c: its goroutines block at their next log call (i.e. when it dies)
func (w *World) Stall(c int) {
	w.mu.Lock()
	w.stalled[c] = make(chan struct{})
	w.mu.Unlock()
	w.op(fmt.Sprintf("br stall %d", c))
	w.record(ev{kind: "stall", conn: c})
	w.o.Count("stim/stall")
}

// StallAt holds up only the goroutine of connection c that reports event ev next (e.g. the dequeuer at the end of a
// delivery, MessageForwarded); the connection's other goroutines keep running
func (w *World) StallAt(c int, ev broker.LogEvent) {
	w.mu.Lock()
	if w.stallOnly == nil {
		w.stallOnly = map[int]broker.LogEvent{}
	}
	w.stallOnly[c] = ev
	w.mu.Unlock()
	w.Stall(c)
}

func (w *World) Unstall(c int) {
	w.mu.Lock()
	ch := w.stalled[c]
	delete(w.stalled, c)
	delete(w.stallOnly, c)
	w.mu.Unlock()
	if ch == nil {
		return
	}
	w.op(fmt.Sprintf("br unstall %d", c))
	close(ch)
	w.settle()
}

// settle waits for quiescence, then reports what happened
func (w *World) settle() {
	synctest.Wait()
	w.mu.Lock()
	ns := len(w.stalled)
	w.mu.Unlock()
	if ns > 0 {
		// let a takeover that waits for a stalled connection run into the kill timeout
		time.Sleep(w.be.KillTimeout + time.Second)
		synctest.Wait()
	}
	w.mu.Lock()
	l := w.log
	w.log = nil
	w.mu.Unlock()
	for _, e := range l {
		w.op("br " + e)
	}
	w.op("br settle")
}

func (w *World) hit(kind, detail string) {
	tr := append([]string{}, w.trace...)
	if w.longCase && len(tr) > 400 {
		// the middle of the script is one round repeated tens of thousands of times: keep the set-up, the first rounds
		// and the decisive end; the whole sequence is regenerated (deterministically) by the replay command
		head, tail := 60, 120
		mid := fmt.Sprintf("# ... %d lines elided: the round shown above repeated (the publisher sends the next QoS 1 message, the subscriber receives it under the next packet id and acknowledges it at once; the first delivery stays unacknowledged) ...", len(tr)-head-tail)
		tr = append(append(append([]string{}, tr[:head]...), mid), tr[len(tr)-tail:]...)
	}
	w.o.Monitor(w.prop, kind, detail, tr)
}

// ---- stimuli

func (w *World) Conn() int {
	w.nconn++
	c := w.nconn
	fc := &fconn{w: w, id: c, in: make(chan packet.Generic, 4096), cl: make(chan struct{})}
	w.conns[c] = fc
	w.peers[c] = &peer{}
	w.op(fmt.Sprintf("br conn %d", c))
	w.record(ev{kind: "stim-conn", conn: c})
	w.clients[c] = broker.NewClient(w.wb, fc)
	w.settle()
	return c
}

func (w *World) Send(c int, p packet.Generic) {
	w.op(fmt.Sprintf("br send %d %s", c, wire.ShowPacket(p)))
	w.o.Count("stim/send/" + wire.TypeName(p.Type()))
	w.record(ev{kind: "stim-send", conn: c, pkt: clonePacket(p), txt: wire.ShowPacket(p)})
	fc := w.conns[c]
	fc.mu.Lock()
	dead := fc.closed || fc.peerGone
	fc.mu.Unlock()
	if !dead {
		fc.in <- clonePacket(p) // what the broker gets is decoded from the wire: its own objects
	}
	w.heard(c)
	w.settle()
}

// heard notes when the broker last received something from connection c: with keep alive 0 it applies its maximum keep
// alive (5 min, closed after 7.5 min of silence), a legitimate closure that an idle script must not provoke
func (w *World) heard(c int) {
	if w.lastHeard == nil {
		w.lastHeard = map[int]time.Time{}
	}
	w.lastHeard[c] = time.Now()
}

// SendBatch pipelines several packets without waiting for replies
func (w *World) SendBatch(c int, ps []packet.Generic) {
	for _, p := range ps {
		w.op(fmt.Sprintf("br send %d %s", c, wire.ShowPacket(p)))
		w.o.Count("stim/send/" + wire.TypeName(p.Type()))
		w.record(ev{kind: "stim-send", conn: c, pkt: clonePacket(p), txt: wire.ShowPacket(p)})
	}
	fc := w.conns[c]
	for _, p := range ps {
		fc.mu.Lock()
		dead := fc.closed || fc.peerGone
		fc.mu.Unlock()
		if !dead {
			fc.in <- clonePacket(p)
		}
	}
	w.heard(c)
	w.settle()
}

func (w *World) Drop(c int) {
	w.op(fmt.Sprintf("br drop %d", c))
	w.o.Count("stim/drop")
	w.record(ev{kind: "stim-drop", conn: c})
	w.conns[c].peerClose()
	w.settle()
}

// FailClose makes the broker-side Close() of connection c report an error from now on (e.g. buffered output could
// not be flushed to a peer that is gone).  Not a model stimulus: the broker ignores that error everywhere.
func (w *World) FailClose(c int) {
	fc := w.conns[c]
	fc.mu.Lock()
	fc.failClose = true
	fc.mu.Unlock()
	w.o.Count("stim/failclose")
}

// KeepAliveExpire lets the read timeout of connection c (1.5 x keep alive, set by the broker) run out: for the broker a
// transport failure on receive
func (w *World) KeepAliveExpire(c int) {
	w.op(fmt.Sprintf("br drop %d", c))
	w.record(ev{kind: "stim-drop", conn: c})
	w.o.Count("stim/keepalive-expiry")
	// 1.5 x keep alive (2 s) has to pass — but stay well below the token timeout (30 s): other connections may have
	// unacknowledged deliveries with a full window, and that is a different (legitimate) reason for the broker to close them
	time.Sleep(6 * time.Second)
	w.settle()
}

// Idle lets more (fake) time pass than the broker's token timeout with nothing to do: not a model stimulus — an idle
// connection that acknowledges promptly must not be affected
var debugLog = os.Getenv("VERIF_DEBUG") != ""

func (w *World) Idle() {
	// everybody acknowledges what it has received first: a full window that nobody frees for longer than the token
	// timeout is (legitimately) a token timeout
	for round := 0; round < 50; round++ {
		any := false
		for c := 1; c <= w.nconn; c++ {
			if w.alive(c) && w.peers[c].connected && len(w.peers[c].unacked) > 0 {
				w.AckAll(c)
				any = true
			}
		}
		if !any {
			break
		}
	}
	// … and nobody stays silent for longer than the maximum keep alive the broker applies to keep alive 0
	for c := 1; c <= w.nconn; c++ {
		if t, ok := w.lastHeard[c]; ok && w.alive(c) && w.peers[c].connected && time.Since(t) > 3*time.Minute {
			w.Send(c, &packet.Pingreq{})
		}
	}
	w.o.Count("stim/idle")
	time.Sleep(2 * time.Minute)
	w.settle()
}

// HoldSends makes every write to connection c wait until ReleaseSends (or the connection's end): its peer has stopped
// reading.  Not a model stimulus (monitors-only scripts).
func (w *World) HoldSends(c int) {
	fc := w.conns[c]
	fc.mu.Lock()
	fc.hold = make(chan struct{})
	fc.mu.Unlock()
	w.o.Count("stim/holdsends")
}

func (w *World) ReleaseSends(c int) {
	fc := w.conns[c]
	fc.mu.Lock()
	h := fc.hold
	fc.hold = nil
	fc.mu.Unlock()
	if h != nil {
		close(h)
	}
	w.settle()
}

func (w *World) FailSend(c int, k int) {
	// no model line: the failure shows up as an `obs sendfail`.
	// Only one connection at a time has a failure armed: two connections dying in the same step interleave their
	// cleanups (will fan-out of one towards the session of the other, which is closing: the Go `select` may drop it) at a
	// granularity below the model's atomic `kill`
	for _, fc := range w.conns {
		fc.mu.Lock()
		fc.failAt = 0
		fc.mu.Unlock()
	}
	w.conns[c].mu.Lock()
	w.conns[c].failAt = k
	w.conns[c].mu.Unlock()
	w.o.Count("stim/failsend")
}

func (w *World) AckMode(m string) {
	w.wb.mu.Lock()
	w.wb.mode = m
	w.wb.mu.Unlock()
	w.record(ev{kind: "ackmode", txt: m})
	w.op("br ackmode " + m)
}

func (w *World) AckRelease() {
	w.op("br ackrelease")
	w.o.Count("stim/ackrelease")
	w.record(ev{kind: "ackrelease"})
	done := make(chan struct{})
	go func() { w.wb.release(); close(done) }() // from another goroutine
	<-done
	w.settle()
}

func (w *World) BackendClose() {
	w.op("br bclose")
	w.o.Count("stim/bclose")
	w.record(ev{kind: "bclose"})
	done := make(chan struct{})
	go func() { w.be.Close(time.Second); close(done) }()
	<-done
	w.settle()
}

func (w *World) alive(c int) bool {
	fc := w.conns[c]
	fc.mu.Lock()
	defer fc.mu.Unlock()
	return !fc.closed && !fc.peerGone
}

// finish ends a case: nothing may stay blocked
func (w *World) finish() {
	for c := 1; c <= w.nconn; c++ {
		w.Unstall(c)
	}
	for c := 1; c <= w.nconn; c++ {
		if w.alive(c) && !w.peers[c].connected {
			w.Drop(c)
		}
	}
	// flush: every well-behaved peer acknowledges what it received until nothing is outstanding, so that at the
	// end no window slot can explain an undelivered message (monMissing)
	for round := 0; round < 50; round++ {
		any := false
		for c := 1; c <= w.nconn; c++ {
			if w.alive(c) && w.peers[c].connected && len(w.peers[c].unacked) > 0 {
				w.AckAll(c)
				any = true
			}
		}
		if !any {
			break
		}
	}
	w.record(ev{kind: "finish"})
	w.BackendClose()
	for c := 1; c <= w.nconn; c++ {
		if w.alive(c) {
			w.Drop(c)
		}
	}
	time.Sleep(time.Hour)
	synctest.Wait()
	w.runMonitors()
	// every connection that was set up is terminated exactly once, and its closed signal fired
	for c, cl := range w.clients {
		select {
		case <-cl.Closed():
		default:
			w.hit("closed-signal-missing", fmt.Sprintf("connection %d: Closed() never fired", c))
		}
	}
}

// curWorld is the world of the case that is running (for the watchdog)
var curWorld *World

// caseBudget is the real time one case may take.  A case that exceeds it is stuck: under synctest a deadlock that involves
// a sync.Mutex is not detected (a goroutine waiting on a mutex is not "durably blocked"), Wait() simply never returns.
var caseBudget = 150 * time.Second

func runCase(t *testing.T, o *out.W, desc string, f func()) {
	o.Case(desc)
	curWorld = nil
	// the watchdog lives outside the bubble: it sees real time
	wd := time.AfterFunc(caseBudget, func() {
		buf := make([]byte, 1<<20)
		n := runtime.Stack(buf, true)
		var trace []string
		prop := *fProp
		if w := curWorld; w != nil {
			w.mu.Lock()
			trace = append(trace, w.trace...)
			w.mu.Unlock()
			if len(trace) > 300 {
				trace = append(append([]string{}, trace[:60]...), trace[len(trace)-200:]...)
			}
		}
		stacks := string(buf[:n])
		if len(stacks) > 12000 {
			stacks = stacks[:12000]
		}
		o.Monitor(prop, "broker-stuck", fmt.Sprintf("case %q made no progress for %v of real time: goroutines of the broker are blocked for good (deadlock). Goroutine dump (truncated):\n%s", desc, caseBudget, stacks), trace)
		o.Close()
		os.Exit(0) // the hit is the verdict; the remaining cases of this shard are not run
	})
	synctest.Test(t, func(t *testing.T) { f() })
	wd.Stop()
}
