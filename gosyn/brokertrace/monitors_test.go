package brokertrace

import (
	"fmt"
	"strings"

	"github.com/256dpi/gomqtt/packet"
)

// tmatch is MQTT 3.1.1 §4.7 written independently of the library and of the Lean model.
func tmatch(filter, name string) bool {
	f := strings.Split(filter, "/")
	n := strings.Split(name, "/")
	for i, l := range f {
		if l == "#" {
			return i == len(f)-1
		}
		if i >= len(n) {
			return false
		}
		if l != "+" && l != n[i] {
			return false
		}
	}
	return len(f) == len(n)
}

// validFilterStr: MQTT 3.1.1 §4.7.1 — wildcards occupy a whole level, '#' only as the last level, no NUL, not empty
func validFilterStr(f string) bool {
	if f == "" || strings.Contains(f, "\x00") {
		return false
	}
	ls := strings.Split(f, "/")
	for i, l := range ls {
		if strings.Contains(l, "#") && (l != "#" || i != len(ls)-1) {
			return false
		}
		if strings.Contains(l, "+") && l != "+" {
			return false
		}
	}
	return true
}

// ---- bookkeeping the monitors need: subscriptions per *session* as acknowledged by the broker

type sessView struct {
	subs map[string]packet.QOS
}

// monitors run over the ordered history of one case; each returns nothing and reports hits
func (w *World) runMonitors() {
	w.mu.Lock()
	h := append([]ev{}, w.hist...)
	w.mu.Unlock()
	w.monRequestResponse(h)
	w.monAckAfterAccept(h)
	w.monQos2Once(h)
	w.monDelivery(h)
	w.monOrder(h)
	w.monWindow(h)
	w.monWill(h)
	w.monTerminate(h)
	w.monTakeover(h)
	if !w.concurrent {
		// these judge by the order of stimuli and observations in the history, which is only meaningful when every
		// stimulus was processed to quiescence before the next one was sent
		w.monResendOrder(h)
		w.monMissing(h)
		w.monKept(h)
	}
	w.monSurvive(h)
	w.monUnexplainedClose(h)
}

// C15: packets retransmitted after a resume go out in the order of their original transmission
func (w *World) monResendOrder(h []ev) {
	order := map[string][]packet.ID{} // session -> ids in order of their last first-time transmission
	key := func(c int) string {
		p := w.peers[c]
		if p == nil || p.clientID == "" || p.clean {
			return fmt.Sprintf("conn%d", c)
		}
		return "id:" + p.clientID
	}
	remove := func(k string, id packet.ID) {
		l := order[k]
		for i, x := range l {
			if x == id {
				order[k] = append(append([]packet.ID{}, l[:i]...), l[i+1:]...)
				return
			}
		}
	}
	resuming := map[int][]packet.ID{} // connection -> ids still expected in the resend phase
	for _, e := range h {
		k := key(e.conn)
		switch e.kind {
		case "setup":
			if e.txt == "1" {
				resuming[e.conn] = append([]packet.ID{}, order[k]...)
			} else {
				delete(order, k)
			}
		case "sent", "sendfail":
			var id packet.ID
			isResend := false
			switch p := e.pkt.(type) {
			case *packet.Publish:
				if p.Message.QOS == 0 {
					continue
				}
				id, isResend = p.ID, p.Dup
				if !p.Dup {
					remove(k, id)
					order[k] = append(order[k], id)
				}
			case *packet.Pubrel:
				id = p.ID
				if exp := resuming[e.conn]; len(exp) > 0 {
					isResend = true
				} else {
					remove(k, id)
					order[k] = append(order[k], id)
				}
			default:
				continue
			}
			if exp := resuming[e.conn]; isResend && len(exp) > 0 {
				known := false
				for _, x := range exp {
					known = known || x == id
				}
				if !known {
					// stored but never seen on the wire (a dying dequeuer recorded it and its write failed), or recorded on
					// account of a spurious PUBREC: its place relative to the packets transmitted earlier is not defined
					continue
				}
				if exp[0] != id {
					w.hit("resend-order", fmt.Sprintf("connection %d retransmits id %d, but id %d was transmitted earlier (expected order %v)", e.conn, id, exp[0], exp))
					resuming[e.conn] = nil
				} else {
					resuming[e.conn] = exp[1:]
				}
			}
		case "stim-send":
			switch p := e.pkt.(type) {
			case *packet.Puback:
				remove(k, p.ID)
			case *packet.Pubcomp:
				remove(k, p.ID)
			}
			resuming[e.conn] = nil
		}
	}
}

// C20: nothing before an accepted CONNECT; every request gets its response
func (w *World) monRequestResponse(h []ev) {
	type cs struct {
		first        packet.Generic
		accepted     bool
		connacks     int
		sentBefore   int
		pendingSub   map[packet.ID]*packet.Subscribe
		pendingUns   map[packet.ID]bool
		pings        int
		closed       bool
		backend      int
		setupDone    bool
		unauthorised bool // its CONNECT carried credentials the backend was not configured with
	}
	st := map[int]*cs{}
	get := func(c int) *cs {
		if st[c] == nil {
			st[c] = &cs{pendingSub: map[packet.ID]*packet.Subscribe{}, pendingUns: map[packet.ID]bool{}}
		}
		return st[c]
	}
	for _, e := range h {
		if e.kind == "finish" {
			// the script is over and everything is quiescent: a connection that is still open has all its answers
			if w.wb.mode == "sync" {
				for c, s := range st {
					if s.closed || !s.accepted {
						continue
					}
					if len(s.pendingSub) > 0 || len(s.pendingUns) > 0 || s.pings > 0 {
						w.hit("request-unanswered", fmt.Sprintf("connection %d open at quiescence with %d SUBSCRIBE, %d UNSUBSCRIBE, %d PINGREQ unanswered", c, len(s.pendingSub), len(s.pendingUns), s.pings))
					}
				}
			}
			continue
		}
		s := get(e.conn)
		switch e.kind {
		case "stim-send":
			if s.closed {
				continue
			}
			if s.first == nil {
				s.first = e.pkt
				if cp, ok := e.pkt.(*packet.Connect); ok && w.creds != nil {
					if pw, known := w.creds[cp.Username]; !known || pw != cp.Password {
						s.unauthorised = true
					}
				}
				continue
			}
			if !s.accepted && !w.concurrent {
				continue // (concurrently fired programs send their requests before the CONNACK has arrived)
			}
			switch p := e.pkt.(type) {
			case *packet.Subscribe:
				s.pendingSub[p.ID] = p
			case *packet.Unsubscribe:
				s.pendingUns[p.ID] = true
			case *packet.Pingreq:
				s.pings++
			}
		case "sent":
			switch p := e.pkt.(type) {
			case *packet.Connack:
				s.connacks++
				if s.connacks > 1 {
					w.hit("second-connack", fmt.Sprintf("connection %d got more than one CONNACK", e.conn))
				}
				if _, ok := s.first.(*packet.Connect); !ok {
					w.hit("reply-before-connect", fmt.Sprintf("connection %d got a CONNACK without CONNECT", e.conn))
				}
				if p.ReturnCode == packet.ConnectionAccepted {
					s.accepted = true
					if s.unauthorised {
						w.hit("unauthorised-accepted", fmt.Sprintf("connection %d presented credentials that are not configured and was accepted", e.conn))
					}
				}
			default:
				if !s.accepted {
					w.hit("reply-before-connect", fmt.Sprintf("connection %d was sent %s before an accepted CONNECT", e.conn, e.txt))
				}
				switch q := p.(type) {
				case *packet.Suback:
					req, ok := s.pendingSub[q.ID]
					if !ok {
						w.hit("suback-unrequested", fmt.Sprintf("connection %d: SUBACK id %d without SUBSCRIBE", e.conn, q.ID))
						continue
					}
					delete(s.pendingSub, q.ID)
					if len(q.ReturnCodes) != len(req.Subscriptions) {
						w.hit("suback-codes", fmt.Sprintf("connection %d: SUBACK id %d has %d codes for %d filters", e.conn, q.ID, len(q.ReturnCodes), len(req.Subscriptions)))
						continue
					}
					for i, rc := range q.ReturnCodes {
						if rc != req.Subscriptions[i].QOS && rc != packet.QOSFailure {
							w.hit("suback-codes", fmt.Sprintf("connection %d: SUBACK id %d code %d is %d, requested %d", e.conn, q.ID, i, rc, req.Subscriptions[i].QOS))
						}
					}
				case *packet.Unsuback:
					if !s.pendingUns[q.ID] {
						w.hit("unsuback-unrequested", fmt.Sprintf("connection %d: UNSUBACK id %d without UNSUBSCRIBE", e.conn, q.ID))
					}
					delete(s.pendingUns, q.ID)
				case *packet.Pingresp:
					s.pings--
					if s.pings < 0 {
						w.hit("pingresp-unrequested", fmt.Sprintf("connection %d: PINGRESP without PINGREQ", e.conn))
					}
				}
			}
		case "closed":
			s.closed = true
		case "setup", "terminate", "bpublish":
			if e.kind == "setup" {
				s.setupDone = true // accepted by the backend; the CONNACK may still be on its way (or lost to a takeover)
			}
			if e.conn > 0 && !get(e.conn).accepted && !get(e.conn).setupDone && e.kind != "setup" && !(e.kind == "terminate") {
				w.hit("backend-before-connect", fmt.Sprintf("backend %s for connection %d that was never accepted", e.kind, e.conn))
			}
			if _, ok := s.first.(*packet.Connect); !ok && e.conn > 0 {
				w.hit("backend-before-connect", fmt.Sprintf("backend %s for connection %d whose first packet was not CONNECT", e.kind, e.conn))
			}
		}
	}
	if w.wb.mode != "sync" {
		return
	}
}

func msgKey(c int, m *packet.Message) string { return fmt.Sprintf("%d|%s|%s", c, m.Topic, m.Payload) }

// C07: PUBACK / PUBCOMP only after the backend accepted the message (Publish called and, in the
// deferred modes, the acknowledgement released)
func (w *World) monAckAfterAccept(h []ev) {
	type key struct {
		c  int
		id packet.ID
	}
	open := map[key]*packet.Publish{} // publishes received from publisher, by id
	accepted := map[string]int{}      // msgKey -> bpublish count so far
	for _, e := range h {
		switch e.kind {
		case "stim-send":
			if p, ok := e.pkt.(*packet.Publish); ok && p.Message.QOS > 0 {
				open[key{e.conn, p.ID}] = p
			}
		case "bpublish-refused":
			// the backend returned an error for it: not accepted (an acknowledgement must not follow)
			if p, ok := e.pkt.(*packet.Publish); ok {
				accepted[msgKey(e.conn, &p.Message)]--
			}
		case "bpublish":
			if p, ok := e.pkt.(*packet.Publish); ok {
				accepted[msgKey(e.conn, &p.Message)]++
			}
		case "sent":
			var id packet.ID
			switch q := e.pkt.(type) {
			case *packet.Puback:
				id = q.ID
			case *packet.Pubcomp:
				id = q.ID
			default:
				continue
			}
			p := open[key{e.conn, id}]
			if p == nil {
				continue // PUBCOMP for an unknown id
			}
			if accepted[msgKey(e.conn, &p.Message)] == 0 {
				w.hit("ack-before-accept", fmt.Sprintf("connection %d: %s sent although the backend was never asked to publish the message", e.conn, e.txt))
			}
		}
	}
}

// C07: each QoS 2 message of a publisher session is handed to the backend at most once, and
// exactly once when its PUBCOMP was sent; every PUBREL is answered
func (w *World) monQos2Once(h []ev) {
	count := map[string]int{}      // clientID|tag -> bpublish count of QoS2 messages
	comp := map[string]bool{}      // clientID|tag -> PUBCOMP sent
	byID := map[string]string{}    // clientID|id -> tag of the open QoS 2 handshake
	offered := map[string]string{} // connection|id -> tag of a QoS 2 PUBLISH the peer sent
	cid := func(c int) string {
		if p := w.peers[c]; p != nil {
			return p.clientID
		}
		return "?"
	}
	pendingRel := map[int]map[packet.ID]bool{}
	fresh := map[string]int{} // clientID|tag -> QoS 2 publishes of that payload that were not retransmissions
	once := func(k string) int {
		if fresh[k] > 1 {
			return fresh[k]
		}
		return 1
	}
	mode := "sync"
	// handed to the backend while it was not acknowledging synchronously and the acknowledgement is still outstanding
	// (the recorded known finding); once the backend invokes its deferred acknowledgements the stored PUBLISH is gone
	// and a later second hand-over is NOT explained by it
	tainted := map[string]bool{}
	taintMode := map[string]string{}
	excused := map[string]bool{} // a second hand-over that happened while the first acknowledgement was still outstanding
	refused := map[string]bool{} // Backend.Publish returned an error for this message
	refusedN := map[string]int{}
	for _, e := range h {
		switch e.kind {
		case "ackmode":
			mode = e.txt
		case "ackrelease":
			for k := range tainted {
				if taintMode[k] == "late" {
					delete(tainted, k)
				}
			}
		case "stim-send":
			switch p := e.pkt.(type) {
			case *packet.Publish:
				if p.Message.QOS == 2 && len(p.Message.Payload) > 0 {
					// the handshake only exists once the broker has answered with PUBREC (the PUBLISH may have been sent into a
					// connection that was already gone)
					offered[fmt.Sprintf("%d|%d", e.conn, p.ID)] = string(p.Message.Payload)
					if !p.Dup {
						fresh[cid(e.conn)+"|"+string(p.Message.Payload)]++ // the same payload published again is another message
					}
				}
			case *packet.Pubrel:
				if w.peers[e.conn] != nil && w.peers[e.conn].connected {
					if pendingRel[e.conn] == nil {
						pendingRel[e.conn] = map[packet.ID]bool{}
					}
					pendingRel[e.conn][p.ID] = true
				}
			}
		case "setup":
			if e.txt == "0" {
				for k := range byID {
					if strings.HasPrefix(k, cid(e.conn)+"|") {
						delete(byID, k)
					}
				}
			}
		case "bpublish-refused":
			if p, ok := e.pkt.(*packet.Publish); ok && p.Message.QOS == 2 {
				refused[cid(e.conn)+"|"+string(p.Message.Payload)] = true
				refusedN[cid(e.conn)+"|"+string(p.Message.Payload)]++
			}
		case "bpublish":
			if p, ok := e.pkt.(*packet.Publish); ok && p.Message.QOS == 2 && len(p.Message.Payload) > 0 && !strings.HasPrefix(string(p.Message.Payload), "will-") {
				k := cid(e.conn) + "|" + string(p.Message.Payload)
				count[k]++
				if mode != "sync" {
					tainted[k] = true
					taintMode[k] = mode
				}
				if count[k] > once(k) {
					kind := "qos2-forwarded-twice"
					if tainted[k] {
						kind += "/late-ack"
						excused[k] = true
					} else if refused[k] {
						// the second recorded known finding: Backend.Publish failed with the publisher's own queue full after
						// a partial fan-out, so the message stayed stored and the resumed PUBREL hands it on again
						kind += "/publisher-queue-full"
						excused[k] = true
					}
					w.hit(kind, fmt.Sprintf("QoS 2 message %q of client %s handed to the backend %d times", p.Message.Payload, cid(e.conn), count[k]))
				}
			}
		case "sent":
			if q, ok := e.pkt.(*packet.Pubrec); ok {
				if tag, ok := offered[fmt.Sprintf("%d|%d", e.conn, q.ID)]; ok {
					byID[fmt.Sprintf("%s|%d", cid(e.conn), q.ID)] = tag
				}
			}
			if q, ok := e.pkt.(*packet.Pubcomp); ok {
				if pendingRel[e.conn] != nil {
					delete(pendingRel[e.conn], q.ID)
				}
				if tag, ok := byID[fmt.Sprintf("%s|%d", cid(e.conn), q.ID)]; ok {
					comp[cid(e.conn)+"|"+tag] = true
					delete(byID, fmt.Sprintf("%s|%d", cid(e.conn), q.ID))
				}
			}
		}
	}
	for k := range comp {
		if count[k]-refusedN[k] <= 0 {
			w.hit("qos2-not-exactly-once", fmt.Sprintf("QoS 2 message %s completed (PUBCOMP sent) although the backend accepted it %d times (handed over %d times, refused %d times)", k, count[k]-refusedN[k], count[k], refusedN[k]))
		} else if count[k] == 0 || (count[k] > once(k) && !excused[k]) {
			w.hit("qos2-not-exactly-once", fmt.Sprintf("QoS 2 message %s completed (PUBCOMP sent) but handed to the backend %d times", k, count[k]))
		}
	}
	if w.wb.mode == "sync" {
		for c, m := range pendingRel {
			if w.alive(c) && len(m) > 0 {
				w.hit("pubrel-unanswered", fmt.Sprintf("connection %d alive at quiescence, PUBREL %v without PUBCOMP", c, m))
			}
		}
	}
}

// C06 / C11: every delivery is justified by a matching subscription of the receiving session and
// capped by it; at most one live copy per publish and client; payload/topic intact; live copies
// have the retain flag cleared, replayed retained ones have it set
func (w *World) monDelivery(h []ev) {
	subs := map[string]map[string]packet.QOS{} // session key -> filter -> qos (as requested; SUBACK grants the same)
	key := func(c int) string {
		p := w.peers[c]
		if p == nil {
			return "?"
		}
		if p.clientID == "" || p.clean {
			return fmt.Sprintf("conn%d", c)
		}
		return "id:" + p.clientID
	}
	type pub struct {
		qos    packet.QOS
		topic  string
		retain bool
	}
	handed := map[string]int{} // payload tag -> times handed to the backend (QoS 1 retransmissions are legitimately forwarded again)
	pubs := map[string]pub{}   // payload tag -> publish
	copies := map[string]int{} // conn|tag -> non-dup live copies
	everSub := map[string]map[string]bool{}
	// grants over time: with pipelined requests a delivery may have been capped with a grant that a later SUBSCRIBE of the
	// same batch has already replaced when the delivery shows up in the history
	type gchg struct {
		at      int
		qos     packet.QOS
		present bool
	}
	grantLog := map[string]map[string][]gchg{}
	logGrant := func(k, f string, at int, q packet.QOS, present bool) {
		if grantLog[k] == nil {
			grantLog[k] = map[string][]gchg{}
		}
		grantLog[k][f] = append(grantLog[k][f], gchg{at, q, present})
	}
	pubIdx := map[string]int{}
	pubCount := map[string]int{} // a payload published more than once (an unchanged value reported again, maybe at another QoS)
	type hand struct {
		at  int
		qos packet.QOS
	}
	handedAt := map[string][]hand{} // payload tag -> every hand-over to the backend, with the QoS it had
	for ei, e := range h {
		switch e.kind {
		case "stim-send":
			switch p := e.pkt.(type) {
			case *packet.Connect:
				if p.CleanSession {
					// state is discarded when (and if) the connect is accepted; handled at setup
				}
				if p.Will != nil {
					pubs[string(p.Will.Payload)] = pub{p.Will.QOS, p.Will.Topic, p.Will.Retain}
				}
			case *packet.Subscribe:
				k := key(e.conn)
				if subs[k] == nil {
					subs[k] = map[string]packet.QOS{}
					everSub[k] = map[string]bool{}
				}
				for _, s := range p.Subscriptions {
					subs[k][s.Topic] = s.QOS
					everSub[k][s.Topic] = true
					logGrant(k, s.Topic, ei, s.QOS, true)
				}
			case *packet.Unsubscribe:
				// deliveries already queued may still arrive ("ever subscribed"); the cap uses current subscriptions
				for _, t := range p.Topics {
					delete(subs[key(e.conn)], t)
					logGrant(key(e.conn), t, ei, 0, false)
				}
			case *packet.Publish:
				if len(p.Message.Payload) > 0 {
					pubs[string(p.Message.Payload)] = pub{p.Message.QOS, p.Message.Topic, p.Message.Retain}
					pubCount[string(p.Message.Payload)]++
				}
			}
		case "bpublish":
			if p, ok := e.pkt.(*packet.Publish); ok {
				handed[string(p.Message.Payload)]++
				handedAt[string(p.Message.Payload)] = append(handedAt[string(p.Message.Payload)], hand{ei, p.Message.QOS})
				if _, seen := pubIdx[string(p.Message.Payload)]; !seen {
					pubIdx[string(p.Message.Payload)] = ei
				}
			}
		case "setup":
			if e.txt == "0" && !w.concurrent {
				// fresh session for this connection (with concurrently fired programs the SUBSCRIBEs were recorded before the
				// broker had set the session up: keep them)
				delete(subs, key(e.conn))
				delete(everSub, key(e.conn))
				delete(grantLog, key(e.conn))
			}
		case "sent":
			p, ok := e.pkt.(*packet.Publish)
			if !ok {
				continue
			}
			tag := string(p.Message.Payload)
			if tag == "" && p.Message.Retain && !p.Dup {
				w.hit("retained-empty-delivered", fmt.Sprintf("connection %d was sent a retained message with an empty payload on %q: an empty retained publish clears the topic, it is never retained itself", e.conn, p.Message.Topic))
			}
			if tag == "" {
				continue // empty payloads carry no tag (a retained-clear publish reaches current subscribers)
			}
			orig, known := pubs[tag]
			if !known {
				w.hit("delivery-unknown-message", fmt.Sprintf("connection %d received %s which nobody published", e.conn, e.txt))
				continue
			}
			if p.Message.Topic != orig.topic {
				w.hit("delivery-altered", fmt.Sprintf("connection %d received %s, published topic %q", e.conn, e.txt, orig.topic))
			}
			k := key(e.conn)
			matched := false
			capOK := false
			for f, q := range subs[k] {
				_ = q
				if tmatch(f, p.Message.Topic) {
					matched = true
				}
			}
			for f := range everSub[k] {
				if tmatch(f, p.Message.Topic) {
					matched = matched || true
				}
			}
			// qos: the lower of published and granted of some matching subscription (current or, for
			// messages queued before a re-subscription, a previous grant) — or the published one
			// a payload that was published more than once (a sensor repeating an unchanged value, maybe at another QoS): a live
			// copy may stem from any of them; a retained copy stems from the one that was the retained message when this
			// connection last subscribed to a matching filter, or from a later one
			origQ := []packet.QOS{orig.qos}
			if pubCount[tag] > 1 {
				origQ = origQ[:0]
				if p.Message.Retain {
					// one candidate per matching SUBSCRIBE of this connection: what the backend held when it was made …
					first := -1
					for f, l := range grantLog[k] {
						if !tmatch(f, p.Message.Topic) && validFilterStr(f) {
							continue // (a filter outside §4.7.1 matches in the trie's own way)
						}
						for _, g := range l {
							if !g.present {
								continue
							}
							if first < 0 || g.at < first {
								first = g.at
							}
							last := -1
							for i, hd := range handedAt[tag] {
								if hd.at < g.at {
									last = i
								}
							}
							if last >= 0 {
								origQ = append(origQ, handedAt[tag][last].qos)
							}
						}
					}
					// … or a hand-over that overtook the SUBSCRIBE inside one batch of pipelined requests
					for _, hd := range handedAt[tag] {
						if first >= 0 && hd.at > first && (w.concurrent || w.noModel) {
							origQ = append(origQ, hd.qos)
						}
					}
				} else {
					for _, hd := range handedAt[tag] {
						origQ = append(origQ, hd.qos)
					}
				}
				if len(origQ) == 0 {
					origQ = append(origQ, orig.qos)
				}
			}
			for _, oq := range origQ {
				if p.Message.QOS <= oq {
					capOK = true
				}
			}
			// a session that ever held a filter outside §4.7.1 is outside the property's domain for "exactly the matching
			// subscribers" (the trie treats such filters in its own way); C14 only demands that nothing breaks
			invalidHeld := false
			for f := range everSub[k] {
				if !validFilterStr(f) {
					invalidHeld = true
				}
			}
			if strings.ContainsAny(p.Message.Topic, "+#\x00") || p.Message.Topic == "" {
				invalidHeld = true
			}
			if invalidHeld {
				matched = true
			}
			if !matched {
				w.hit("delivery-without-subscription", fmt.Sprintf("connection %d (%s) received %s but never subscribed to a matching filter", e.conn, k, e.txt))
			}
			// the cap: the delivered QoS is the lower of the published QoS and the QoS granted to one of
			// the currently matching subscriptions
			allowed := map[packet.QOS]bool{}
			for f, q := range subs[k] {
				if tmatch(f, p.Message.Topic) {
					for _, m := range origQ {
						if q < m {
							m = q
						}
						allowed[m] = true
					}
				}
			}
			// … or a grant that was in force at some moment since the message was handed to the backend
			if from, ok := pubIdx[tag]; ok {
				for f, l := range grantLog[k] {
					if !tmatch(f, p.Message.Topic) {
						continue
					}
					for i, g := range l {
						inForceLater := g.at >= from || i == len(l)-1 || l[i+1].at >= from
						if g.present && inForceLater {
							for _, m := range origQ {
								if g.qos < m {
									m = g.qos
								}
								allowed[m] = true
							}
						}
					}
				}
			}
			if len(allowed) > 0 && !allowed[p.Message.QOS] && !p.Dup && !invalidHeld && !w.concurrent {
				w.hit("delivery-qos-not-capped", fmt.Sprintf("connection %d (%s) received %s: published QoS %d, matching grants allow %v", e.conn, k, e.txt, orig.qos, allowed))
			}
			if !capOK {
				w.hit("delivery-qos-raised", fmt.Sprintf("connection %d received %s above the published QoS %d", e.conn, e.txt, orig.qos))
			}
			if !p.Dup && !p.Message.Retain {
				ck := fmt.Sprintf("%d|%s", e.conn, tag)
				copies[ck]++
				if copies[ck] > handed[tag] {
					w.hit("duplicate-delivery", fmt.Sprintf("connection %d received message %q %d times as a fresh delivery", e.conn, tag, copies[ck]))
				}
			}
		}
	}
}

// C15: messages one client hands to the broker at one QoS reach a subscriber (at one QoS) in the
// order in which the broker accepted them (for QoS 2 that is the order of the PUBRELs)
func (w *World) monOrder(h []ev) {
	seqOf := map[string]int{}
	pubOf := map[string]string{}
	again := map[string]bool{}
	cid := func(c int) string {
		if p := w.peers[c]; p != nil {
			return p.clientID
		}
		return "?"
	}
	n := 0
	for _, e := range h {
		if e.kind == "bpublish" {
			if p, ok := e.pkt.(*packet.Publish); ok && len(p.Message.Payload) > 0 {
				n++
				tag := string(p.Message.Payload)
				if _, seen := seqOf[tag]; !seen {
					seqOf[tag] = n
					pubOf[tag] = fmt.Sprintf("%s|%d", cid(e.conn), p.Message.QOS)
				} else {
					again[tag] = true // handed on more than once (QoS 1 retransmission): no order claim
				}
			}
		}
	}
	last := map[string]int{}
	for _, e := range h {
		if e.kind != "sent" {
			continue
		}
		p, ok := e.pkt.(*packet.Publish)
		if !ok || p.Dup || p.Message.Retain {
			continue
		}
		tag := string(p.Message.Payload)
		s, ok := seqOf[tag]
		if !ok || again[tag] {
			continue
		}
		k := fmt.Sprintf("%d|%s|%d", e.conn, pubOf[tag], p.Message.QOS)
		if s < last[k] {
			w.hit("order-violated", fmt.Sprintf("connection %d received %q (accepted #%d) after #%d of the same publisher and QoS", e.conn, tag, s, last[k]))
		}
		if s > last[k] {
			last[k] = s
		}
	}
}

// C16: never more than `window` QoS>0 deliveries unacknowledged towards one connection
func (w *World) monWindow(h []ev) {
	inflight := map[int]map[packet.ID]bool{}
	spuriousID := map[string]bool{} // the peer acknowledged something it never received: it widened its own window
	cidOf := func(c int) string {
		if p := w.peers[c]; p != nil && p.clientID != "" {
			return p.clientID
		}
		return fmt.Sprintf("conn%d", c)
	}
	spurious := map[int]bool{}
	for _, e := range h {
		if spuriousID[cidOf(e.conn)] {
			spurious[e.conn] = true
		}
		switch e.kind {
		case "sent":
			if spurious[e.conn] {
				continue
			}
			if p, ok := e.pkt.(*packet.Publish); ok && p.Message.QOS > 0 {
				if inflight[e.conn] == nil {
					inflight[e.conn] = map[packet.ID]bool{}
				}
				inflight[e.conn][p.ID] = true
				if len(inflight[e.conn]) > w.window {
					w.hit("window-exceeded", fmt.Sprintf("connection %d has %d unacknowledged QoS>0 messages, window is %d", e.conn, len(inflight[e.conn]), w.window))
				}
			}
			if p, ok := e.pkt.(*packet.Pubrel); ok {
				if inflight[e.conn] == nil {
					inflight[e.conn] = map[packet.ID]bool{}
				}
				inflight[e.conn][p.ID] = true
			}
		case "stim-send":
			switch p := e.pkt.(type) {
			case *packet.Puback:
				if !inflight[e.conn][p.ID] {
					spuriousID[cidOf(e.conn)] = true
				}
				delete(inflight[e.conn], p.ID)
			case *packet.Pubcomp:
				if !inflight[e.conn][p.ID] {
					spuriousID[cidOf(e.conn)] = true
				}
				delete(inflight[e.conn], p.ID)
			case *packet.Pubrec:
				// a PUBREC for something never received makes the broker record (and later release) a PUBREL that never
				// held a window slot: the peer widens its own window
				if !inflight[e.conn][p.ID] {
					spuriousID[cidOf(e.conn)] = true
				}
			}
		}
	}
}

// C12: the will is published exactly once iff the client was accepted and did not DISCONNECT
func (w *World) monWill(h []ev) {
	type cs struct {
		will       *packet.Message
		accepted   bool
		disconnect bool
		closed     bool
		wills      int
	}
	st := map[int]*cs{}
	get := func(c int) *cs {
		if st[c] == nil {
			st[c] = &cs{}
		}
		return st[c]
	}
	for _, e := range h {
		s := get(e.conn)
		switch e.kind {
		case "stim-send":
			if s.closed {
				continue
			}
			switch p := e.pkt.(type) {
			case *packet.Connect:
				if !s.accepted && s.will == nil {
					s.will = p.Will
				}
			case *packet.Disconnect:
				if s.accepted || w.concurrent {
					s.disconnect = true
				}
			}
		case "sent":
			if p, ok := e.pkt.(*packet.Connack); ok && p.ReturnCode == packet.ConnectionAccepted {
				s.accepted = true
			}
		case "setup":
			// the client counts as accepted once its session is set up, even if the CONNACK write fails
			s.accepted = true
		case "closed":
			s.closed = true
		case "bpublish":
			p := e.pkt.(*packet.Publish)
			// the will goes out during cleanup, i.e. after the connection was closed (an ordinary publish of the same client
			// may carry the same topic and payload, e.g. an empty retained one)
			if s.will != nil && s.closed && string(p.Message.Payload) == string(s.will.Payload) && p.Message.Topic == s.will.Topic {
				s.wills++
				if p.Message.QOS != s.will.QOS || p.Message.Retain != s.will.Retain {
					w.hit("will-altered", fmt.Sprintf("connection %d: will published with qos %d retain %v, supplied qos %d retain %v", e.conn, p.Message.QOS, p.Message.Retain, s.will.QOS, s.will.Retain))
				}
			}
		}
	}
	for c, s := range st {
		if c == 0 || !s.closed {
			continue
		}
		want := 0
		if s.will != nil && s.accepted && !s.disconnect {
			want = 1
		}
		if w.concurrent && s.disconnect && s.will != nil && s.accepted && s.wills == 1 {
			continue // the DISCONNECT was fired, but the connection may have been displaced before the broker read it
		}
		if s.wills != want {
			w.hit("will-count", fmt.Sprintf("connection %d (accepted=%v disconnect=%v will=%v): will published %d times, expected %d", c, s.accepted, s.disconnect, s.will != nil, s.wills, want))
		}
	}
}

// C14: the backend is told about the termination exactly once for every connection it set up
func (w *World) monTerminate(h []ev) {
	setup := map[int]int{}
	term := map[int]int{}
	closed := map[int]bool{}
	for _, e := range h {
		switch e.kind {
		case "setup":
			setup[e.conn]++
		case "terminate":
			term[e.conn]++
		case "closed":
			closed[e.conn] = true
		}
	}
	for c, n := range setup {
		if closed[c] && term[c] != 1 {
			w.hit("terminate-count", fmt.Sprintf("connection %d was set up %d time(s) and terminated %d time(s)", c, n, term[c]))
		}
	}
	for c, n := range term {
		if n > 1 {
			w.hit("terminate-count", fmt.Sprintf("connection %d terminated %d times", c, n))
		}
	}
}

// C13: at most one live connection per client id; the old one is terminated before the newcomer's CONNACK
func (w *World) monTakeover(h []ev) {
	live := map[string]int{} // client id -> connection that holds it
	idOf := map[int]string{}
	for _, e := range h {
		switch e.kind {
		case "stim-send":
			if p, ok := e.pkt.(*packet.Connect); ok {
				if _, known := idOf[e.conn]; !known {
					idOf[e.conn] = p.ClientID
				}
			}
		case "terminate", "closed":
			id := idOf[e.conn]
			if e.kind == "terminate" && live[id] == e.conn {
				delete(live, id)
			}
		case "sent":
			if p, ok := e.pkt.(*packet.Connack); ok && p.ReturnCode == packet.ConnectionAccepted {
				id := idOf[e.conn]
				if id == "" {
					continue
				}
				if old, taken := live[id]; taken && old != e.conn {
					w.hit("two-live-connections", fmt.Sprintf("connection %d got its CONNACK for client id %q while connection %d was not yet terminated", e.conn, id, old))
				}
				live[id] = e.conn
			}
		}
	}
}

// C06 / C08 / C11: nothing that had to be delivered is missing.  Deliberately conservative — an expectation is only
// raised where the outcome is unambiguous at quiescence granularity:
//   - the message was handed to the backend (bpublish) exactly once under its payload tag, on a wildcard-free topic;
//   - the session held, at that moment, a valid filter matching the topic (the monitor's own bookkeeping, independent
//     4.7 matcher), and its connection was accepted and alive (live delivery), or the session is persistent and the
//     message was published at QoS >= 1 (stored queue);
//   - the session was not discarded afterwards (no later fresh Setup), the connection that holds it when the script
//     ends is alive, was never held up, and its peer acknowledged everything it received (finish() flushes), so no
//     window slot and no queue capacity can explain a missing delivery.
//
// Retained replay: every retained message whose topic matches a filter of an accepted SUBSCRIBE must reach that
// connection afterwards, flagged retained, under the same conditions.
func (w *World) monMissing(h []ev) {
	fin := -1
	for i, e := range h {
		if e.kind == "finish" {
			fin = i
		}
	}
	if fin < 0 {
		return
	}
	validFilter := func(f string) bool {
		if f == "" {
			return false
		}
		ls := strings.Split(f, "/")
		for i, l := range ls {
			if strings.Contains(l, "#") && (l != "#" || i != len(ls)-1) {
				return false
			}
			if strings.Contains(l, "+") && l != "+" {
				return false
			}
		}
		return !strings.Contains(f, "\x00")
	}
	validName := func(t string) bool { return t != "" && !strings.ContainsAny(t, "+#\x00") }
	key := func(c int) string {
		p := w.peers[c]
		if p == nil || p.clientID == "" || p.clean {
			return fmt.Sprintf("conn%d", c)
		}
		return "id:" + p.clientID
	}
	persistent := func(k string) bool { return strings.HasPrefix(k, "id:") }
	handed := map[string]int{}
	for _, e := range h {
		if e.kind == "bpublish" {
			if p, ok := e.pkt.(*packet.Publish); ok {
				handed[string(p.Message.Payload)]++
			}
		}
	}
	type expect struct {
		k      string
		tag    string
		from   int
		conn   int  // connection holding the session when the expectation arose (0: offline)
		live   bool // must reach exactly `conn` (QoS 0 class or temporary session)
		retain bool
		what   string
		qos    packet.QOS // published QoS
		grant  packet.QOS // lowest grant among the matching filters when the message was published
		topic  string
	}
	var exps []expect
	subChange := map[string][]struct {
		at     int
		filter string
	}{}
	subs := map[string]map[string]packet.QOS{}
	holder := map[string]int{} // session key -> connection currently holding it (accepted, not closed)
	accepted := map[int]bool{}
	dead := map[int]bool{}
	heldUp := map[int]bool{}
	discarded := map[string]int{} // session key -> index of the last fresh Setup
	type ret struct {
		tag string
	}
	retained := map[string]ret{}
	for i, e := range h[:fin] {
		switch e.kind {
		case "stall":
			heldUp[e.conn] = true
		case "closed":
			dead[e.conn] = true
			for k, c := range holder {
				if c == e.conn {
					delete(holder, k)
				}
			}
		case "setup":
			k := key(e.conn)
			if e.txt == "0" {
				delete(subs, k)
				discarded[k] = i
			}
		case "sent":
			if p, ok := e.pkt.(*packet.Connack); ok && p.ReturnCode == packet.ConnectionAccepted {
				accepted[e.conn] = true
				holder[key(e.conn)] = e.conn
			}
		case "stim-send":
			if dead[e.conn] || !accepted[e.conn] {
				continue
			}
			k := key(e.conn)
			switch p := e.pkt.(type) {
			case *packet.Subscribe:
				if subs[k] == nil {
					subs[k] = map[string]packet.QOS{}
				}
				for _, s := range p.Subscriptions {
					subs[k][s.Topic] = s.QOS
					subChange[k] = append(subChange[k], struct {
						at     int
						filter string
					}{i, s.Topic})
					if !validFilter(s.Topic) {
						continue
					}
					for t, r := range retained {
						if tmatch(s.Topic, t) && handed[r.tag] == 1 {
							exps = append(exps, expect{k: k, tag: r.tag, from: i, conn: e.conn, live: true, retain: true,
								what: fmt.Sprintf("retained message %q on %q matches filter %q of the SUBSCRIBE on connection %d", r.tag, t, s.Topic, e.conn)})
						}
					}
				}
			case *packet.Unsubscribe:
				for _, t := range p.Topics {
					delete(subs[k], t)
					subChange[k] = append(subChange[k], struct {
						at     int
						filter string
					}{i, t})
				}
			}
		case "bpublish":
			p, ok := e.pkt.(*packet.Publish)
			if !ok {
				continue
			}
			m := p.Message
			tag := string(m.Payload)
			if m.Retain && validName(m.Topic) {
				if len(m.Payload) == 0 {
					delete(retained, m.Topic)
				} else {
					retained[m.Topic] = ret{tag}
				}
			}
			if tag == "" || handed[tag] != 1 || !validName(m.Topic) {
				continue
			}
			for k, fs := range subs {
				match := ""
				grant := packet.QOS(2)
				for f, g := range fs {
					if validFilter(f) && tmatch(f, m.Topic) {
						match = f
						if g < grant {
							grant = g
						}
					}
				}
				if match == "" {
					continue
				}
				c := holder[k]
				if dead[c] {
					c = 0
				}
				exps = append(exps, expect{k: k, tag: tag, from: i, conn: c, qos: m.QOS, grant: grant, topic: m.Topic,
					what: fmt.Sprintf("QoS %d message %q published on %q while session %s (connection %d, 0 = offline) held a subscription to %q", m.QOS, tag, m.Topic, k, c, match)})
			}
		}
	}
	wellBehaved := func(c int) bool {
		p := w.peers[c]
		return c != 0 && !dead[c] && !heldUp[c] && p != nil && len(p.unacked) == 0
	}
	for _, x := range exps {
		if d, ok := discarded[x.k]; ok && d > x.from {
			continue
		}
		var target int
		switch {
		case x.retain:
			target = x.conn
		case x.conn != 0 && wellBehaved(x.conn):
			// the connection that held the subscription lived on to the end: it must have got the message, whatever the QoS
			x.live = true
			target = x.conn
		case persistent(x.k) && x.qos > 0 && x.grant > 0 && w.queue >= 100:
			// (with a small session queue an offline session legitimately drops what does not fit)
			// recorded for a persistent session at a delivery QoS >= 1: some connection of the session must get it, provided
			// the subscriptions that decide the delivery QoS did not change afterwards
			changed := false
			for _, ch := range subChange[x.k] {
				if ch.at > x.from && (ch.filter == "" || !validFilter(ch.filter) || tmatch(ch.filter, x.topic)) {
					changed = true
				}
			}
			if changed {
				continue
			}
			target = holder[x.k]
		default:
			continue
		}
		if !wellBehaved(target) {
			continue
		}
		found := false
		for _, e := range h[x.from:] {
			if e.kind != "sent" && e.kind != "sendfail" {
				continue
			}
			p, ok := e.pkt.(*packet.Publish)
			if !ok || string(p.Message.Payload) != x.tag {
				continue
			}
			if x.live && e.conn != x.conn {
				continue
			}
			if !x.live && key(e.conn) != x.k {
				continue
			}
			if x.retain && !p.Message.Retain {
				continue
			}
			found = true
			break
		}
		if !found {
			kind := "delivery-missing"
			if x.retain {
				kind = "retained-missing"
			}
			w.hit(kind, x.what+": never sent although the receiving connection stayed alive and acknowledged everything")
		}
	}
}

// C08: what was transmitted at QoS >= 1 stays recorded until the peer's PUBACK / PUBCOMP: its packet id is not handed out
// again for a new message while it is unacknowledged (the store is keyed by id: re-use overwrites the record), and a
// resumed session retransmits every unacknowledged packet (PUBLISH flagged DUP with the same payload, PUBREL once the
// PUBREC was received) in the same step in which it is resumed.
func (w *World) monKept(h []ev) {
	type rec struct {
		tag  string
		rel  bool
		id   packet.ID
		form string // topic, QoS and retain flag of the first transmission: a retransmission differs in the DUP flag only
	}
	form := func(p *packet.Publish) string {
		return fmt.Sprintf("topic %q, QoS %d, retain %v", p.Message.Topic, p.Message.QOS, p.Message.Retain)
	}
	key := func(c int) string {
		p := w.peers[c]
		if p == nil || p.clientID == "" || p.clean {
			return fmt.Sprintf("conn%d", c)
		}
		return "id:" + p.clientID
	}
	out := map[string]map[packet.ID]*rec{}
	get := func(k string) map[packet.ID]*rec {
		if out[k] == nil {
			out[k] = map[packet.ID]*rec{}
		}
		return out[k]
	}
	expect := map[int]map[packet.ID]*rec{} // resumed connection -> what must still be retransmitted in this step
	// messages whose packet id was handed to a newer message while they were unacknowledged: they are still owed to the
	// peer (it never acknowledged them), whatever the store did with their record
	displaced := map[string][]*rec{}
	expectTag := map[int]map[string]packet.ID{} // resumed connection -> displaced messages still to be retransmitted
	// an acknowledgement carrying the id cannot tell the two messages apart: it settles both (conservative)
	undisplace := func(k string, id packet.ID) {
		var keep []*rec
		for _, r := range displaced[k] {
			if r.id != id {
				keep = append(keep, r)
			}
		}
		displaced[k] = keep
	}
	dead := map[int]bool{}
	flush := func() {
		for c, m := range expect {
			if !dead[c] {
				for id, r := range m {
					what := fmt.Sprintf("PUBLISH %q", r.tag)
					if r.rel {
						what = "PUBREL"
					}
					w.hit("resend-missing", fmt.Sprintf("connection %d resumed its session but packet id %d (%s), transmitted earlier and never acknowledged, was not retransmitted", c, id, what))
				}
			}
			delete(expect, c)
		}
		for c, m := range expectTag {
			if !dead[c] {
				for tag, id := range m {
					w.hit("resend-missing", fmt.Sprintf("connection %d resumed its session but message %q, transmitted earlier under packet id %d and never acknowledged, was not retransmitted: its id was handed to a newer message, which replaced its record", c, tag, id))
				}
			}
			delete(expectTag, c)
		}
	}
	for _, e := range h {
		if strings.HasPrefix(e.kind, "stim-") || e.kind == "bclose" || e.kind == "ackrelease" || e.kind == "finish" {
			flush() // the previous step is over
		}
		k := key(e.conn)
		switch e.kind {
		case "closed":
			dead[e.conn] = true
		case "setup":
			if e.txt == "0" {
				delete(out, k)
				delete(displaced, k)
			} else {
				m := map[packet.ID]*rec{}
				for id, r := range get(k) {
					m[id] = &rec{r.tag, r.rel, id, r.form}
				}
				expect[e.conn] = m
				mt := map[string]packet.ID{}
				for _, r := range displaced[k] {
					mt[r.tag] = r.id
				}
				expectTag[e.conn] = mt
			}
		case "sent", "sendfail":
			switch p := e.pkt.(type) {
			case *packet.Publish:
				if p.Message.QOS == 0 {
					continue
				}
				tag := string(p.Message.Payload)
				if !p.Dup {
					if r, busy := get(k)[p.ID]; busy {
						w.hit("id-reused-while-unacked", fmt.Sprintf("connection %d: packet id %d handed to new message %q while %q sent under the same id is still unacknowledged", e.conn, p.ID, tag, r.tag))
						if !r.rel && r.tag != tag && r.tag != "" {
							displaced[k] = append(displaced[k], &rec{tag: r.tag, id: p.ID})
						}
					}
				} else {
					if m := expect[e.conn]; m != nil {
						if r, ok := m[p.ID]; ok && !r.rel && r.tag != tag {
							w.hit("resend-altered", fmt.Sprintf("connection %d: id %d retransmitted with payload %q, originally %q", e.conn, p.ID, tag, r.tag))
						} else if ok && !r.rel && r.form != "" && r.form != form(p) {
							w.hit("resend-altered", fmt.Sprintf("connection %d: id %d (%q) retransmitted as %s, originally %s", e.conn, p.ID, tag, form(p), r.form))
						}
						delete(m, p.ID)
					}
					if m := expectTag[e.conn]; m != nil {
						delete(m, tag)
					}
				}
				f := form(p)
				if old := get(k)[p.ID]; p.Dup && old != nil && old.tag == tag && old.form != "" {
					f = old.form // (a retransmission does not redefine what the message looked like)
				}
				get(k)[p.ID] = &rec{tag: tag, id: p.ID, form: f}
			case *packet.Pubrel:
				if m := expect[e.conn]; m != nil {
					delete(m, p.ID)
				}
				if r := get(k)[p.ID]; r != nil {
					r.rel = true
				} else {
					get(k)[p.ID] = &rec{rel: true}
				}
			}
		case "stim-send":
			switch p := e.pkt.(type) {
			case *packet.Puback:
				delete(get(k), p.ID)
				undisplace(k, p.ID)
			case *packet.Pubcomp:
				delete(get(k), p.ID)
				undisplace(k, p.ID)
			case *packet.Pubrec:
				if r := get(k)[p.ID]; r != nil {
					r.rel = true
				} else {
					get(k)[p.ID] = &rec{rel: true}
				}
			}
		}
	}
	flush()
}

// C14 / C20: a connection whose peer follows the protocol, acknowledges what it receives and is not displaced must not
// be closed by the broker (scripts mark such connections with MustSurvive)
func (w *World) monSurvive(h []ev) {
	// … and a connection that arrives after the backend was shut down has to be turned away and released
	closed := map[int]bool{}
	for _, e := range h {
		if e.kind == "closed" {
			closed[e.conn] = true
		}
	}
	for _, c := range w.mustRelease {
		if !closed[c] {
			w.hit("connection-not-released", fmt.Sprintf("connection %d arrived after the backend had been shut down and is still open at the end: nothing released it", c))
		}
	}
	for _, e := range h {
		if e.kind == "finish" {
			return
		}
		if e.kind == "closed" && w.mustSurvive[e.conn] {
			w.hit("well-behaved-client-closed", fmt.Sprintf("connection %d only sent valid requests and acknowledged everything, yet the broker closed it", e.conn))
		}
	}
}

// C16 / C08 / C14: the broker closes a connection only for a reason — the peer went away, a write to it failed, it broke
// the protocol, it was displaced, it said goodbye, the backend shut down.  Evaluated for the well-behaved profiles only
// (no hostile packets, no small queues, quiescent stepping): a close that none of these explains (e.g. a token timeout
// hitting a peer that acknowledges promptly) is reported.
func (w *World) monUnexplainedClose(h []ev) {
	switch w.prop {
	case "C06", "C08", "C11", "C15", "C16":
	default:
		return
	}
	if w.concurrent || w.queue < 100 {
		return
	}
	idOf := map[int]string{}
	excused := map[int]bool{}
	byID := map[string][]int{}
	shutdown := false
	for _, e := range h {
		switch e.kind {
		case "finish", "bclose":
			shutdown = true
		case "stim-drop", "sendfail", "stall":
			excused[e.conn] = true
		case "stim-send":
			switch p := e.pkt.(type) {
			case *packet.Connect:
				if _, known := idOf[e.conn]; known {
					excused[e.conn] = true // second CONNECT
				} else {
					idOf[e.conn] = p.ClientID
					if p.ClientID != "" {
						// a takeover: both sides of it may be closed (the newcomer when the old one cannot finish dying)
						for _, o := range byID[p.ClientID] {
							excused[o] = true
							excused[e.conn] = excused[e.conn] || false
						}
						byID[p.ClientID] = append(byID[p.ClientID], e.conn)
					}
				}
			case *packet.Disconnect, *packet.Connack, *packet.Suback, *packet.Unsuback, *packet.Pingresp:
				excused[e.conn] = true
			default:
				if _, known := idOf[e.conn]; !known {
					excused[e.conn] = true // first packet is not CONNECT
				}
			}
		case "sent":
			if p, ok := e.pkt.(*packet.Connack); ok && p.ReturnCode != packet.ConnectionAccepted {
				excused[e.conn] = true
			}
		case "closed":
			if !shutdown && !excused[e.conn] {
				w.hit("closed-without-cause", fmt.Sprintf("the broker closed connection %d although its peer was connected, followed the protocol, acknowledged what it received and was not displaced", e.conn))
			}
		}
	}
}
