package conntrace

import (
	"flag"
	"fmt"
	"sync"
	"sync/atomic"
	"testing"
	"testing/synctest"
	"time"

	"github.com/256dpi/gomqtt/packet"
	"github.com/256dpi/gomqtt/transport"

	"verifharness/lib/gen"
	"verifharness/lib/out"
)

var (
	fProp   = flag.String("prop", "C19", "property")
	fSeed   = flag.Uint64("seed", 1, "seed")
	fTier   = flag.String("tier", "quick", "quick|thorough")
	fOut    = flag.String("out", "", "output directory")
	fShard  = flag.Int("shard", 0, "shard")
	fNShard = flag.Int("nshard", 1, "shards")
)

func runCase(t *testing.T, o *out.W, desc string, f func()) {
	o.Case(desc)
	synctest.Test(t, func(t *testing.T) { f() })
}

func TestHarness(t *testing.T) {
	if *fOut == "" {
		t.Skip("no -out")
	}
	o := out.New(*fOut)
	defer o.Close()
	r := gen.New(*fSeed*1000003 + uint64(*fShard) + 1919)
	nScr, nConc := 640, 320
	if *fTier == "thorough" {
		nScr, nConc = 24000, 16000
	}
	nScr, nConc = nScr/(*fNShard)+1, nConc/(*fNShard)+1
	for i := 0; i < nScr; i++ {
		rr := r.Fork()
		runCase(t, o, "C19 scripted", func() { scriptedCase(rr, o, 20+rr.Intn(50)) })
	}
	for i := 0; i < nConc; i++ {
		rr := r.Fork()
		runCase(t, o, "C19 concurrent", func() { concCase(rr, o) })
	}
	nPool := 4
	if *fTier == "thorough" {
		nPool = 60
	}
	poolFamily(t, o, r.Fork(), nPool)
	if *fShard == 0 {
		for _, scheme := range []string{"tcp", "ws"} {
			n := 3
			if *fTier == "thorough" {
				n = 20
			}
			for i := 0; i < n; i++ {
				loopbackCase(t, o, scheme, r.Fork())
			}
			stalledPeerCase(t, o, scheme)
		}
	}
}

// ---------------------------------------------------------------- real carriers
//
// A TCP and a WebSocket pair over the loopback interface (no fake clock): concurrent senders, a
// buffered DISCONNECT pending at Close() arrives, a Receive waiting at Close() returns, calls after
// the close fail without waiting.  Only monitors (the schedule is the operating system's).

func loopbackCase(t *testing.T, o *out.W, scheme string, r *gen.Rng) {
	o.Case("C19 loopback " + scheme)
	o.Op("# loopback "+scheme, "# loopback "+scheme)
	var trace []string
	hit := func(kind, detail string) { o.Monitor("C19", kind, scheme+": "+detail, append([]string{}, trace...)) }
	srv, err := transport.Launch(scheme + "://localhost:0")
	if err != nil {
		o.Count("loopback/" + scheme + "/unavailable")
		return
	}
	defer srv.Close()
	accepted := make(chan transport.Conn, 1)
	go func() {
		c, err := srv.Accept()
		if err == nil {
			accepted <- c
		} else {
			close(accepted)
		}
	}()
	cli, err := transport.Dial(scheme + "://" + srv.Addr().String())
	if err != nil {
		o.Count("loopback/" + scheme + "/unavailable")
		return
	}
	var peer transport.Conn
	select {
	case peer = <-accepted:
	case <-time.After(5 * time.Second):
	}
	if peer == nil {
		o.Count("loopback/" + scheme + "/unavailable")
		cli.Close()
		return
	}
	defer peer.Close()
	o.Count("loopback/" + scheme + "/cases")
	delay := time.Duration(r.Intn(3)*20) * time.Millisecond
	cli.SetMaxWriteDelay(delay)
	nsend, per := 2+r.Intn(7), 5+r.Intn(30)
	trace = append(trace, fmt.Sprintf("%s loopback: %d senders x %d packets, flush delay %v, then buffered DISCONNECT + Close", scheme, nsend, per, delay))

	// the peer reads everything until the stream ends
	type got struct {
		pkts []packet.Generic
		err  error
	}
	peerDone := make(chan got, 1)
	go func() {
		var g got
		for {
			p, err := peer.Receive()
			if err != nil {
				g.err = err
				peerDone <- g
				return
			}
			g.pkts = append(g.pkts, p)
		}
	}()
	// a Receive waiting on the client side when Close() is called
	recvDone := make(chan error, 1)
	go func() {
		_, err := cli.Receive()
		recvDone <- err
	}()
	var wg sync.WaitGroup
	sendErrs := make(chan error, nsend*per)
	for g := 1; g <= nsend; g++ {
		wg.Add(1)
		go func(g int, rr *gen.Rng) {
			defer wg.Done()
			for i := 1; i <= per; i++ {
				if err := cli.Send(mkPacket(g, i, sendSize(rr)), rr.Intn(3) != 0); err != nil {
					sendErrs <- fmt.Errorf("send %d:%d: %v", g, i, err)
				}
			}
		}(g, r.Fork())
	}
	wg.Wait()
	close(sendErrs)
	for e := range sendErrs {
		hit("loopback-send-failed", e.Error())
	}
	// final buffered DISCONNECT, then Close at once
	if err := cli.Send(packet.NewDisconnect(), true); err != nil {
		hit("loopback-send-failed", "DISCONNECT: "+err.Error())
	}
	t0 := time.Now()
	cerr := cli.Close()
	if d := time.Since(t0); d > 2*time.Second {
		hit("call-waited", fmt.Sprintf("Close() took %v", d))
	}
	_ = cerr
	select {
	case err := <-recvDone:
		if err == nil {
			hit("receive-ok-after-close", "the pending Receive returned a packet nobody sent")
		}
	case <-time.After(5 * time.Second):
		hit("call-waited", "a Receive pending at Close() did not return within 5 s")
	}
	// after the close: nothing waits, everything fails
	t0 = time.Now()
	if err := cli.Send(mkPacket(99, 1, 10), false); err == nil {
		hit("send-ok-after-close", "flushed send after Close() succeeded")
	}
	first := cli.Send(mkPacket(99, 2, 10), true)
	time.Sleep(delay + 30*time.Millisecond)
	if err := cli.Send(mkPacket(99, 3, 10), true); err == nil && first == nil {
		// the first buffered send after the close may be accepted; once its flush failed the next must fail
		if err2 := cli.Send(mkPacket(99, 4, 10), true); err2 == nil {
			hit("send-ok-after-delay", "buffered sends keep succeeding after Close() and the flush delay")
		}
	}
	if _, err := cli.Receive(); err == nil {
		hit("receive-ok-after-close", "Receive after Close() returned a packet")
	}
	if d := time.Since(t0); d > 3*time.Second {
		hit("call-waited", fmt.Sprintf("calls after Close() took %v", d))
	}
	// what the peer saw
	var g got
	select {
	case g = <-peerDone:
	case <-time.After(10 * time.Second):
		hit("close-lost-accepted-send", "the peer never saw the end of the stream")
		return
	}
	last := map[int]int{}
	count := 0
	sawDisc := false
	for i, p := range g.pkts {
		if p.Type() == packet.DISCONNECT {
			sawDisc = true
			if i != len(g.pkts)-1 {
				hit("sender-order", "DISCONNECT is not the last packet the peer received")
			}
			continue
		}
		gg, seq, ok := pktKey(p)
		if !ok || gg == 99 {
			hit("wire-unknown-packet", "peer received "+p.String())
			continue
		}
		if seq != last[gg]+1 {
			hit("sender-order", fmt.Sprintf("peer received %d:%d after %d:%d", gg, seq, gg, last[gg]))
		}
		last[gg] = seq
		count++
	}
	if count != nsend*per {
		hit("close-lost-accepted-send", fmt.Sprintf("peer received %d of %d accepted packets", count, nsend*per))
	}
	if !sawDisc {
		hit("close-lost-accepted-send", "the buffered DISCONNECT accepted before Close() did not reach the peer")
	}
	o.Count("loopback/" + scheme + "/packets-checked")
}

// A peer that has stopped reading: a Send is stuck in the carrier write (socket buffers full) when the read timeout of
// the same connection expires.  Receive must report the error (not panic), and that error ends the stuck Send and lets
// Close return — alike over TCP and WebSocket.  Only monitors.
func stalledPeerCase(t *testing.T, o *out.W, scheme string) {
	o.Case("C19 stalled peer " + scheme)
	o.Op("# stalled peer "+scheme, "# stalled peer "+scheme)
	trace := []string{scheme + " loopback: the peer never reads; Send 64 KiB packets until one is stuck; SetReadTimeout(150ms); Receive; then Close"}
	hit := func(kind, detail string) { o.Monitor("C19", kind, scheme+": "+detail, trace) }
	srv, err := transport.Launch(scheme + "://localhost:0")
	if err != nil {
		o.Count("stalled/" + scheme + "/unavailable")
		return
	}
	defer srv.Close()
	accepted := make(chan transport.Conn, 1)
	go func() {
		if c, err := srv.Accept(); err == nil {
			accepted <- c
		} else {
			close(accepted)
		}
	}()
	cli, err := transport.Dial(scheme + "://" + srv.Addr().String())
	if err != nil {
		o.Count("stalled/" + scheme + "/unavailable")
		return
	}
	var peer transport.Conn
	select {
	case peer = <-accepted:
	case <-time.After(5 * time.Second):
	}
	if peer == nil {
		o.Count("stalled/" + scheme + "/unavailable")
		cli.Close()
		return
	}
	defer peer.Close() // (never reads)
	var sent atomic.Int64
	sendDone := make(chan error, 1)
	go func() {
		for i := 1; i <= 2000; i++ {
			if err := cli.Send(mkPacket(1, i, 64<<10), false); err != nil {
				sendDone <- err
				return
			}
			sent.Add(1)
		}
		sendDone <- nil
	}()
	// wait until the sender makes no progress any more
	last, still := int64(-1), 0
	for still < 6 {
		time.Sleep(50 * time.Millisecond)
		select {
		case err := <-sendDone:
			o.Count("stalled/" + scheme + "/never-stuck")
			_ = err
			cli.Close()
			return
		default:
		}
		if n := sent.Load(); n == last {
			still++
		} else {
			last, still = n, 0
		}
	}
	o.Count("stalled/" + scheme + "/cases")
	cli.SetReadTimeout(150 * time.Millisecond)
	type rres struct {
		err error
		pan interface{}
	}
	recvDone := make(chan rres, 1)
	go func() {
		var rr rres
		defer func() {
			rr.pan = recover()
			recvDone <- rr
		}()
		_, rr.err = cli.Receive()
	}()
	select {
	case rr := <-recvDone:
		if rr.pan != nil {
			hit("receive-error-panicked", fmt.Sprintf("Receive panicked when its read timeout expired while a Send was stuck: %v", rr.pan))
		} else if rr.err == nil {
			hit("receive-ok-after-close", "Receive returned a packet although the peer never sent one")
		}
	case <-time.After(5 * time.Second):
		hit("call-waited", "Receive did not return within 5 s of a 150 ms read timeout (a Send of the same connection is stuck)")
	}
	select {
	case err := <-sendDone:
		if err == nil {
			hit("send-ok-after-close", "the sender finished 2000 x 64 KiB although the peer never read")
		}
	case <-time.After(5 * time.Second):
		hit("call-waited", "the stuck Send is still blocked 5 s after Receive failed: the receive error did not end it")
	}
	closed := make(chan struct{})
	go func() { cli.Close(); close(closed) }()
	select {
	case <-closed:
	case <-time.After(5 * time.Second):
		hit("call-waited", "Close() after the receive error did not return within 5 s")
	}
}
