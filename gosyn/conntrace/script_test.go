package conntrace

import (
	"fmt"
	"testing/synctest"
	"time"

	"github.com/256dpi/gomqtt/packet"

	"verifharness/lib/gen"
	"verifharness/lib/out"
)

const readTimeout = time.Hour // scripted mode: far beyond any flush delay

// ---------------------------------------------------------------- scripted mode
//
// One call at a time; after each call every goroutine of the bubble is durably blocked
// (synctest.Wait), then the outcome and the observable state are compared with the model's
// canonical answer, line by line.  A Receive that waits for the peer stays pending in its own
// goroutine; after every later operation the line also reports what became of it ("& recv …"),
// which is what the driver does with its `pending` flag.

type scripted struct {
	*world
	pend   *call // the Receive that is waiting
	nextSq map[int]int
}

func (s *scripted) settle(op string, outcome string) {
	synctest.Wait()
	impl := outcome
	if s.pend != nil {
		s.mu.Lock()
		done := s.pend.done
		s.mu.Unlock()
		impl += " & recv " + s.pend.obs()
		if done {
			s.pend = nil
		}
	}
	sn := s.snapshot(s.pend != nil)
	impl += " " + sn.String()
	s.mu.Lock()
	s.fresh = nil
	s.mu.Unlock()
	s.line(op, impl)
}

func (s *scripted) send(g int, size int, async bool) {
	s.nextSq[g]++
	c := s.doSend(g, g, s.nextSq[g], size, async)
	s.o.Count(fmt.Sprintf("scripted/send/%s/%s", map[bool]string{true: "async", false: "sync"}[async], c.obs()))
	s.settle("bc "+c.opText(), c.obs())
}

func (s *scripted) sendBad(g int) {
	c := s.doSendBad(g, g)
	s.o.Count("scripted/sendbad")
	s.settle("bc "+c.opText(), c.obs())
}

func (s *scripted) close() {
	c := s.doClose(0)
	s.o.Count("scripted/close/" + c.obs())
	s.settle("bc close", c.obs())
}

func (s *scripted) recv() {
	if s.pend != nil {
		return
	}
	done := make(chan *call, 1)
	go func() { done <- s.doRecv(200) }()
	synctest.Wait()
	var c *call
	select {
	case c = <-done:
	default:
		// still waiting: find its record
		s.mu.Lock()
		c = s.calls[len(s.calls)-1]
		s.mu.Unlock()
		s.pend = c
	}
	o := c.obs()
	if len(o) > 3 && o[:3] == "pkt" {
		s.o.Count("scripted/recv/pkt")
	} else {
		s.o.Count("scripted/recv/" + o)
	}
	sn := s.snapshot(s.pend != nil)
	impl := o + " " + sn.String()
	s.mu.Lock()
	s.fresh = nil
	s.mu.Unlock()
	s.line("bc recv", impl)
}

func (s *scripted) advance() {
	time.Sleep(s.delay + time.Millisecond)
	s.o.Count("scripted/advance")
	s.settle("bc advance", "ok")
}

func (s *scripted) expire() {
	time.Sleep(readTimeout + time.Second)
	s.o.Count("scripted/expire")
	s.settle("bc expire", "ok")
}

func (s *scripted) peerData(b []byte) {
	s.car.peerData(b)
	s.o.Count("scripted/peerdata")
	s.settle("bc peerdata "+hx(b), "ok")
}

func (s *scripted) peerClose() {
	s.car.peerClose()
	s.o.Count("scripted/peerclose")
	s.settle("bc peerclose", "ok")
}

func (s *scripted) fail(kind string, k int) {
	s.car.fail(kind, k)
	s.o.Count("scripted/fail/" + kind)
	s.settle(fmt.Sprintf("bc fail %s %d", kind, k), "ok")
}

func (s *scripted) rtimeout(on bool) {
	if s.pend != nil {
		return // SetReadTimeout takes receiveMutex: it would wait for the pending Receive
	}
	d := time.Duration(0)
	if on {
		d = readTimeout
	}
	s.conn.SetReadTimeout(d)
	s.o.Count("scripted/rtimeout")
	s.settle("bc rtimeout "+b01(on), "ok")
}

// inbound material: valid packets (whole, split, several at once)
func inboundValid(r *gen.Rng, carry *[]byte) []byte {
	if len(*carry) > 0 {
		b := *carry
		*carry = nil
		return b
	}
	switch r.Intn(8) {
	case 0, 1:
		// a packet delivered in two pieces
		p := enc(mkPacket(900+r.Intn(5), r.Intn(100), r.Intn(40)))
		k := 1 + r.Intn(len(p)-1)
		*carry = p[k:]
		return p[:k]
	case 2:
		// two packets at once
		return append(enc(packet.NewPingreq()), enc(mkPacket(901, r.Intn(100), r.Intn(30)))...)
	case 3:
		return enc(packet.NewPingresp())
	default:
		return enc(mkPacket(900+r.Intn(5), r.Intn(100), r.Intn(60)))
	}
}

// malformed input: each of these makes Decoder.Read fail
func inboundGarbage(r *gen.Rng) []byte {
	switch r.Intn(3) {
	case 0:
		return []byte{0x00, 0x00} // type 0: no such packet
	case 1:
		return []byte{0x30, 0xff, 0xff, 0xff, 0xff, 0x7f} // remaining length does not terminate: detection overflow
	default:
		return []byte{0xc0, 0x01, 0x00} // PINGREQ with a body: decode error
	}
}

func sendSize(r *gen.Rng) int {
	switch r.Intn(12) {
	case 0:
		return 4096 + r.Intn(6000) // larger than the writer's buffer
	case 1:
		return 3000 + r.Intn(1200) // around the buffer size
	case 2:
		return 1000 + r.Intn(1000)
	default:
		return r.Intn(80)
	}
}

func scriptedCase(r *gen.Rng, o *out.W, steps int) {
	delay := 0
	if r.Intn(4) != 0 {
		delay = 1 + r.Intn(50)
	}
	dlOK := r.Intn(6) == 0
	s := &scripted{world: newWorld(o, delay, dlOK), nextSq: map[int]int{}}
	if r.Bool() {
		s.rtimeout(true)
	}
	var carry []byte
	nsend := 1 + r.Intn(4)
	avail := 0 // whole packets the peer has made available and nobody has read yet (roughly)
	healthy := func() {
		k := r.Intn(100)
		switch {
		case k < 45:
			s.send(1+r.Intn(nsend), sendSize(r), r.Intn(3) != 0)
		case k < 60:
			s.advance()
		case k < 77:
			s.peerData(inboundValid(r, &carry))
			avail++
		case k < 92:
			if avail > 0 || r.Intn(4) == 0 {
				s.recv()
				if avail > 0 {
					avail--
				}
			}
		case k < 97:
			s.rtimeout(r.Bool())
		default:
			s.send(1+r.Intn(nsend), sendSize(r), false)
		}
	}
	anything := func() {
		k := r.Intn(100)
		switch {
		case k < 30:
			s.send(1+r.Intn(nsend), sendSize(r), r.Intn(3) != 0)
		case k < 34:
			s.sendBad(1 + r.Intn(nsend))
		case k < 46:
			s.advance()
		case k < 58:
			s.recv()
		case k < 66:
			s.peerData(inboundValid(r, &carry))
		case k < 69:
			s.peerData(inboundGarbage(r))
		case k < 72:
			s.peerClose()
		case k < 80:
			s.close()
		case k < 88:
			s.fail([]string{"write", "read", "deadline", "close"}[r.Intn(4)], r.Intn(3))
		case k < 92:
			s.rtimeout(r.Bool())
		case k < 95:
			s.expire()
		default:
			s.send(1+r.Intn(nsend), sendSize(r), false)
		}
	}
	for i := 0; i < steps; i++ {
		healthy()
	}
	// the turning point
	killer := r.Intn(100)
	switch {
	case killer < 30:
		s.close()
	case killer < 45:
		s.fail("write", r.Intn(4))
	case killer < 52:
		s.fail("read", r.Intn(3))
	case killer < 59:
		s.fail("deadline", r.Intn(3))
	case killer < 64:
		s.fail("close", r.Intn(2))
	case killer < 72:
		s.peerClose()
	case killer < 80:
		s.peerData(inboundGarbage(r))
	case killer < 86:
		s.sendBad(1 + r.Intn(nsend))
	case killer < 93:
		s.expire()
	}
	o.Count(fmt.Sprintf("scripted/turning-point/%02d", killer/10))
	for i, n := 0, 4+r.Intn(14); i < n; i++ {
		if r.Intn(3) == 0 {
			anything()
		} else {
			healthy()
		}
	}
	// the end: close, let the flush delay pass; nothing may stay blocked
	s.close()
	s.advance()
	s.send(1, 10, false)
	s.send(1, 10, true)
	s.advance()
	s.send(1, 10, true)
	s.recv()
	if s.pend != nil {
		s.hit("receive-blocked-after-close", "a Receive issued after Close() did not return")
	}
	s.car.stopTimers()
	runMonitors(s.world)
	o.Distinct(fmt.Sprintf("scripted d=%d %d", delay, len(s.trace)) + fmt.Sprint(s.trace[len(s.trace)-1]))
	if o.NCases < 4 {
		o.Sample(fmt.Sprintf("scripted case, delay %d ms, %d lines, last: %s", delay, len(s.trace), s.trace[len(s.trace)-1]))
	}
}
