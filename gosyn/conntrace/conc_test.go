package conntrace

import (
	"fmt"
	"sync"
	"testing/synctest"
	"time"

	"verifharness/lib/gen"
	"verifharness/lib/out"
)

// ---------------------------------------------------------------- concurrent mode
//
// 1–16 sender goroutines, a closer and a receiver run pre-drawn schedules: sleep a multiple of
// 1 ms of the fake clock (often 0, often the same as others), make one call.  Calls that fall into
// the same instant run truly concurrently (the bubble does not serialise goroutines); calls of
// different instants are ordered by the clock, because no Send/Close ever waits for anything but a
// mutex held by a running goroutine.  The coordinator wakes every millisecond, waits for
// quiescence, and reports the calls that returned in that instant as one GROUP together with the
// state it sees (wire, writer buffer, error flags).  The order inside a group is not observable
// from outside — a buffered send leaves no trace at the carrier — so the harness does not guess
// one: the Lean driver searches for an interleaving of the group (program order per goroutine,
// due timer callbacks anywhere) that gives every call its observed outcome and ends in the
// observed state; the buffer contents pin the order of all accepted sends, each packet carrying a
// unique id.  Environment stimuli are applied by the coordinator at quiescence, one at a time.

type step struct {
	sleep int // ms before the call
	kind  string
	size  int
	async bool
}

type stim struct {
	at   int // ms
	kind string
	k    int
	data []byte
}

type conc struct {
	*world
	inRecv   bool
	recvLive bool
	wg       sync.WaitGroup
	finished map[int]bool
}

func (c *conc) flush(tick int) {
	synctest.Wait()
	if c.car.deadlineDue() {
		c.line("bc env dexpire", "ok")
	}
	c.mu.Lock()
	fresh := c.fresh
	c.fresh = nil
	inRecv := c.inRecv
	c.mu.Unlock()
	sn := c.snapshot(inRecv).String()
	if len(fresh) == 0 && sn == c.lastSnp && len(sn) > 0 && !hasDelta(sn) {
		return
	}
	for _, cl := range fresh {
		c.line(fmt.Sprintf("bc g %d %s %s", cl.gid, cl.opText(), cl.obs()), "ok")
		c.o.Count("conc/" + cl.kind + "/" + obsClass(cl.obs()))
	}
	if inRecv {
		c.line("bc g 200 recv block", "ok")
	}
	c.line(fmt.Sprintf("bc endg %d %s", tick, sn), "ok")
	if len(fresh) > 1 {
		c.o.Count(fmt.Sprintf("conc/group-size/%02d", min(len(fresh), 20)))
	}
	c.lastSnp = sn
}

func hasDelta(sn string) bool { return len(sn) > 3 && sn[:4] != "w=x " }

func obsClass(o string) string {
	if len(o) > 3 && o[:3] == "pkt" {
		return "pkt"
	}
	return o
}

func (c *conc) runSender(g int, sched []step) {
	defer c.wg.Done()
	seq := 0
	for _, st := range sched {
		if st.sleep > 0 {
			time.Sleep(time.Duration(st.sleep) * time.Millisecond)
		}
		switch st.kind {
		case "send":
			seq++
			c.doSend(g, g, seq, st.size, st.async)
		case "sendbad":
			c.doSendBad(g, g)
		case "close":
			c.doClose(g)
		}
	}
	c.mu.Lock()
	c.finished[g] = true
	c.mu.Unlock()
}

func (c *conc) runReceiver() {
	defer c.wg.Done()
	for {
		c.mu.Lock()
		c.inRecv = true
		c.mu.Unlock()
		cl := c.doRecv(200)
		c.mu.Lock()
		c.inRecv = false
		c.mu.Unlock()
		if cl.err != nil {
			break
		}
	}
	c.mu.Lock()
	c.finished[200] = true
	c.mu.Unlock()
}

func concCase(r *gen.Rng, o *out.W) {
	delay := 0
	if r.Intn(5) != 0 {
		delay = 1 + r.Intn(50)
	}
	nsend := 1 + r.Intn(16)
	horizon := 20 + r.Intn(60) // ms
	c := &conc{world: newWorld(o, delay, false), finished: map[int]bool{}}
	rto := 0
	if r.Intn(3) == 0 {
		rto = 5 + r.Intn(60)
		c.conn.SetReadTimeout(time.Duration(rto) * time.Millisecond)
		c.line("bc env rtimeout 1", "ok")
	}
	// schedules
	mkSched := func(n int) []step {
		var s []step
		for i := 0; i < n; i++ {
			sl := 0
			switch r.Intn(4) {
			case 0:
				sl = 0 // burst
			case 1:
				sl = 1
			default:
				sl = r.Intn(8)
			}
			st := step{sleep: sl, kind: "send", size: sendSize(r), async: r.Intn(3) != 0}
			if r.Intn(200) == 0 {
				st.kind = "sendbad"
			}
			s = append(s, st)
		}
		return s
	}
	c.wg.Add(nsend)
	for g := 1; g <= nsend; g++ {
		go c.runSender(g, mkSched(2+r.Intn(10)))
	}
	// the closer: a final DISCONNECT-like send followed by Close, at an arbitrary moment
	closeAt := horizon/3 + r.Intn(horizon-horizon/3)
	c.wg.Add(1)
	go c.runSender(100, []step{{sleep: closeAt, kind: "send", size: 0, async: true}, {sleep: 0, kind: "close"},
		{sleep: r.Intn(3), kind: "send", size: 0, async: r.Bool()}, {sleep: r.Intn(delay + 3), kind: "send", size: 0, async: true},
		{sleep: delay + 1, kind: "send", size: 0, async: true}})
	if r.Intn(4) == 0 {
		c.wg.Add(1)
		go c.runSender(101, []step{{sleep: r.Intn(horizon), kind: "close"}}) // a second closer
	}
	c.wg.Add(1)
	go c.runReceiver()
	// stimuli: inbound packets; in half of the cases one fault somewhere
	var stims []stim
	for i, n := 0, r.Intn(6); i < n; i++ {
		var carry []byte
		d := inboundValid(r, &carry)
		stims = append(stims, stim{at: r.Intn(horizon), kind: "peerdata", data: append(d, carry...)})
	}
	if r.Bool() {
		st := stim{at: r.Intn(horizon)}
		switch r.Intn(7) {
		case 0, 1:
			st.kind, st.k = "fail write", r.Intn(6)
		case 2:
			st.kind, st.k = "fail read", r.Intn(2)
		case 3:
			st.kind, st.k = "fail close", 0
		case 4:
			st.kind, st.k = "fail deadline", r.Intn(2)
		case 5:
			st.kind = "peerclose"
		default:
			st.kind, st.data = "peerdata", inboundGarbage(r)
		}
		stims = append(stims, st)
	}
	for t := 0; t <= horizon+2*delay+rto+6; t++ {
		c.flush(t)
		for _, st := range stims {
			if st.at != t {
				continue
			}
			switch st.kind {
			case "peerdata":
				c.line("bc env peerdata "+hx(st.data), "ok")
				c.car.peerData(st.data)
			case "peerclose":
				c.line("bc env peerclose", "ok")
				c.car.peerClose()
			default:
				c.line(fmt.Sprintf("bc env %s %d", st.kind, st.k), "ok")
				c.car.fail(st.kind[5:], st.k)
			}
			c.o.Count("conc/stim/" + st.kind)
			c.flush(t)
		}
		time.Sleep(time.Millisecond)
	}
	// everything has been closed by now (the closer always closes); nobody may still be inside a call
	synctest.Wait()
	c.mu.Lock()
	for _, cl := range c.calls {
		if !cl.done {
			c.mu.Unlock()
			c.hit("call-blocked", fmt.Sprintf("%s of goroutine %d started at %v never returned", cl.kind, cl.gid, cl.t0))
			c.mu.Lock()
		}
	}
	c.mu.Unlock()
	c.car.stopTimers()
	c.wg.Wait() // a goroutine left behind makes the bubble panic: reported as a crash by the check
	runMonitors(c.world)
	o.Distinct(fmt.Sprintf("conc n=%d d=%d close@%d lines=%d", nsend, delay, closeAt, len(c.trace)))
	o.Count(fmt.Sprintf("conc/senders/%02d", nsend))
	o.Count(fmt.Sprintf("conc/delay/%s", map[bool]string{true: "0", false: ">0"}[delay == 0]))
	if o.NCases%25 == 1 {
		o.Sample(fmt.Sprintf("concurrent case: %d senders, delay %d ms, close at %d ms, %d lines", nsend, delay, closeAt, len(c.trace)))
	}
}
