package conntrace

import (
	"bufio"
	"bytes"
	"encoding/hex"
	"fmt"
	"reflect"
	"strconv"
	"strings"
	"sync"
	"time"
	"unsafe"

	"github.com/256dpi/gomqtt/packet"
	"github.com/256dpi/gomqtt/transport"

	"verifharness/lib/out"
)

func hx(b []byte) string { return "x" + hex.EncodeToString(b) }

func b01(b bool) string {
	if b {
		return "1"
	}
	return "0"
}

// ---------------------------------------------------------------- looking inside the writer

// peek reads unexported fields of the connection's stream at quiescence (read-only; used for the
// comparison with the model's state, never by the property monitors).
type peek struct {
	bw      *bufio.Writer // mercury's buffered writer
	bwErr   reflect.Value // bufio.Writer.err
	bwBuf   reflect.Value
	bwN     reflect.Value
	mwErr   reflect.Value // mercury.Writer.err
	mwTimer reflect.Value // mercury.Writer.timer
	br      *bufio.Reader
	mwMu    *sync.Mutex // mercury.Writer.mutex: guards the writer, the timer and the parked error
	rcvMu   *sync.Mutex // BaseConn.receiveMutex: guards the reader
}

func fld(v reflect.Value, name string) reflect.Value {
	f := v.FieldByName(name)
	if !f.IsValid() {
		panic("conntrace: field " + name + " not found in " + v.Type().String() + " (layout changed)")
	}
	return reflect.NewAt(f.Type(), unsafe.Pointer(f.UnsafeAddr())).Elem()
}

func newPeek(c *transport.BaseConn) *peek {
	st := fld(reflect.ValueOf(c).Elem(), "stream").Elem() // packet.Stream
	enc := fld(st, "Encoder").Elem()
	dec := fld(st, "Decoder").Elem()
	mw := fld(enc, "writer").Elem() // mercury.Writer
	bwp := fld(mw, "writer")        // *bufio.Writer
	bw := bwp.Elem()
	p := &peek{
		bw: bwp.Interface().(*bufio.Writer), bwErr: fld(bw, "err"), bwBuf: fld(bw, "buf"), bwN: fld(bw, "n"),
		mwErr: fld(mw, "err"), mwTimer: fld(mw, "timer"),
		br:    fld(dec, "reader").Interface().(*bufio.Reader),
		mwMu:  fld(mw, "mutex").Addr().Interface().(*sync.Mutex),
		rcvMu: fld(reflect.ValueOf(c).Elem(), "receiveMutex").Addr().Interface().(*sync.Mutex),
	}
	return p
}

type snap struct {
	wdelta []byte
	buf    []byte
	r      int
	berr   bool
	werr   bool
	timer  bool
	closed bool
	waiting bool
}

func (s snap) String() string {
	r := strconv.Itoa(s.r)
	if s.waiting {
		r = "-" // a waiting Receive holds part of a packet in its own buffer
	}
	return fmt.Sprintf("w=%s b=%s r=%s f=%s%s%s%s", hx(s.wdelta), hx(s.buf), r, b01(s.berr), b01(s.werr), b01(s.timer), b01(s.closed))
}

// ---------------------------------------------------------------- packets

// mkPacket: a PUBLISH whose payload starts with "<g>:<seq>|" (unique per case), padded to size
func mkPacket(g, seq, size int) *packet.Publish {
	p := packet.NewPublish()
	p.Message.Topic = "s/" + strconv.Itoa(g)
	pl := []byte(fmt.Sprintf("%d:%d|", g, seq))
	for len(pl) < size {
		pl = append(pl, byte('a'+len(pl)%26))
	}
	p.Message.Payload = pl
	return p
}

func mkInvalid() packet.Generic {
	p := packet.NewPublish()
	p.Message.Topic = "" // Encode refuses an empty topic
	return p
}

func enc(p packet.Generic) []byte {
	b := make([]byte, p.Len())
	n, err := p.Encode(b)
	if err != nil {
		panic(err)
	}
	return b[:n]
}

func pktKey(p packet.Generic) (g, seq int, ok bool) {
	pub, isPub := p.(*packet.Publish)
	if !isPub {
		return 0, 0, false
	}
	s := string(pub.Message.Payload)
	i := strings.IndexByte(s, '|')
	if i < 0 {
		return 0, 0, false
	}
	parts := strings.Split(s[:i], ":")
	if len(parts) != 2 {
		return 0, 0, false
	}
	g, e1 := strconv.Atoi(parts[0])
	seq, e2 := strconv.Atoi(parts[1])
	return g, seq, e1 == nil && e2 == nil
}

// ---------------------------------------------------------------- call records

type call struct {
	kind   string // send sendbad close recv
	gid    int    // goroutine
	g, seq int
	async  bool
	enc    []byte
	err    error
	pkt    []byte // recv: the encoding of the packet handed out
	t0, t1 time.Duration
	s0, s1 int64
	closedAtReturn bool
	done   bool
}

func (c *call) opText() string {
	switch c.kind {
	case "send":
		m := "sync"
		if c.async {
			m = "async"
		}
		return fmt.Sprintf("send %d %s %s", c.g, hx(c.enc), m)
	case "sendbad":
		return fmt.Sprintf("sendbad %d", c.g)
	case "close":
		return "close"
	}
	return "recv"
}

func (c *call) obs() string {
	if !c.done {
		return "block"
	}
	if c.kind == "recv" && c.err == nil {
		return "pkt " + hx(c.pkt)
	}
	if c.err != nil {
		return "err"
	}
	return "ok"
}

// world: one connection under test
type world struct {
	o     *out.W
	car   *memCarrier
	conn  *transport.BaseConn
	pk    *peek
	delay time.Duration
	rto   time.Duration
	seen  int
	t0    time.Time

	mu      sync.Mutex
	calls   []*call // every call, in start order
	fresh   []*call // completed since the last group was reported
	trace   []string
	lastSnp string
}

func newWorld(o *out.W, delayMs int, dlClosedOK bool) *world {
	w := &world{o: o, car: newCarrier(), delay: time.Duration(delayMs) * time.Millisecond, t0: time.Now()}
	w.car.dlClosedOK = dlClosedOK
	w.conn = transport.NewBaseConn(w.car)
	w.conn.SetMaxWriteDelay(w.delay)
	w.pk = newPeek(w.conn)
	w.line(fmt.Sprintf("bc new %d 4096 %s", delayMs, b01(!dlClosedOK)), "ok")
	return w
}

func (w *world) now() time.Duration { return time.Since(w.t0) }

func (w *world) line(op, impl string) {
	w.trace = append(w.trace, op+"   => "+impl)
	w.o.Op(op, impl)
}

// snapshot at quiescence.  The fields are read under the locks that guard them (so that the race
// detector sees the later timer callback / Receive ordered after the read); the reader is not
// looked at while a Receive is waiting (it holds receiveMutex; `r` is not reported then).
func (w *world) snapshot(waiting bool) snap {
	w.car.mu.Lock()
	wire := w.car.wire
	s := snap{wdelta: append([]byte{}, wire[w.seen:]...), closed: w.car.closed, waiting: waiting}
	w.seen = len(wire)
	w.car.mu.Unlock()
	w.pk.mwMu.Lock()
	n := int(w.pk.bwN.Int())
	s.buf = append([]byte{}, w.pk.bwBuf.Bytes()[:n]...)
	s.berr = !w.pk.bwErr.IsNil()
	s.werr = !w.pk.mwErr.IsNil()
	s.timer = !w.pk.mwTimer.IsNil()
	w.pk.mwMu.Unlock()
	if !waiting {
		w.pk.rcvMu.Lock()
		s.r = w.pk.br.Buffered()
		w.pk.rcvMu.Unlock()
	}
	return s
}

// ---- calls (run by whatever goroutine; records are appended under w.mu)

func (w *world) begin(c *call) {
	w.mu.Lock()
	c.t0 = w.now()
	c.s0 = nextOrd()
	w.calls = append(w.calls, c)
	w.mu.Unlock()
}

func (w *world) end(c *call, err error) {
	cl := w.car.isClosed()
	w.mu.Lock()
	c.err = err
	c.t1 = w.now()
	c.s1 = nextOrd()
	c.closedAtReturn = cl
	c.done = true
	w.fresh = append(w.fresh, c)
	w.mu.Unlock()
}

func (w *world) doSend(gid, g, seq, size int, async bool) *call {
	p := mkPacket(g, seq, size)
	c := &call{kind: "send", gid: gid, g: g, seq: seq, async: async, enc: enc(p)}
	w.begin(c)
	err := w.conn.Send(p, async)
	w.end(c, err)
	return c
}

func (w *world) doSendBad(gid, g int) *call {
	c := &call{kind: "sendbad", gid: gid, g: g}
	w.begin(c)
	err := w.conn.Send(mkInvalid(), false)
	w.end(c, err)
	return c
}

func (w *world) doClose(gid int) *call {
	c := &call{kind: "close", gid: gid}
	w.begin(c)
	err := w.conn.Close()
	w.end(c, err)
	return c
}

func (w *world) doRecv(gid int) *call {
	c := &call{kind: "recv", gid: gid}
	w.begin(c)
	p, err := w.conn.Receive()
	if err == nil {
		c.pkt = enc(p)
	}
	w.end(c, err)
	return c
}

func (w *world) hit(kind, detail string) {
	w.o.Monitor("C19", kind, detail, append([]string{}, w.trace...))
}

// decodeWire parses the carrier's byte stream with the real decoder
func decodeWire(wire []byte) (pkts []packet.Generic, ends []int, rest int, err error) {
	rd := bytes.NewReader(wire)
	d := packet.NewDecoder(rd)
	pos := 0
	for {
		p, e := d.Read()
		if e != nil {
			return pkts, ends, len(wire) - pos, e
		}
		pos += p.Len()
		pkts = append(pkts, p)
		ends = append(ends, pos)
	}
}
