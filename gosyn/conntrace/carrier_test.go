// Package conntrace drives the real transport.BaseConn (over packet.Stream and mercury.Writer) on an
// instrumented in-memory carrier inside a testing/synctest bubble and reports what happened in the
// line protocol of lean/Drv/BaseConn.lean (property C19).  Built as a test binary because synctest
// needs *testing.T.
package conntrace

import (
	"errors"
	"io"
	"runtime"
	"strings"
	"sync"
	"sync/atomic"
	"time"
)

// ord is the global order counter: every call start / call end / carrier event takes the next value,
// so "a returned before b started" is `a.s1 < b.s0` even inside one instant of the fake clock.
var ord int64

func nextOrd() int64 { return atomic.AddInt64(&ord, 1) }

var (
	errClosed   = errors.New("memcarrier: use of closed carrier")
	errInjected = errors.New("memcarrier: injected failure")
)

type timeoutErr struct{}

func (timeoutErr) Error() string   { return "memcarrier: i/o timeout" }
func (timeoutErr) Timeout() bool   { return true }
func (timeoutErr) Temporary() bool { return true }

type writeRec struct {
	end int           // wire length after this write
	at  time.Duration // fake time since the start of the case
	ord int64
}

// memCarrier is a transport.Carrier.  Semantics follow net.Conn: Close twice is an error, a write or
// read on a closed carrier fails, SetReadDeadline on a closed carrier fails (unless dlClosedOK), a
// read checks the deadline before the data, a blocked read is woken by data, end of stream, close,
// deadline or an injected failure.  Writes are all-or-nothing.
type memCarrier struct {
	mu   sync.Mutex
	cond *sync.Cond
	t0   time.Time

	wire   []byte
	writes []writeRec
	closed bool

	inbox      []byte
	peerClosed bool
	deadline   time.Time
	dlTimer    *time.Timer
	expiredRep bool // the harness has told the model about the expiry of the current deadline

	// fault counters: -1 never, k >= 0: k more calls succeed, then every call fails
	wfail, rfail, dfail, cfail int
	dlClosedOK                 bool

	// bookkeeping for the monitors
	nWrite, nRead, nClose, nDeadline int
	firstWriteErrOrd                 int64 // ord of the first refused write (0 = none)
	firstCloseOrd                    int64 // ord of the first Close call
	firstCloseByClose                bool  // … which came from BaseConn.Close (not from an error path)
	closeAtWire                      int   // wire length at the first Close call
	firstWriteErrAt, firstCloseAt    time.Duration
}

func newCarrier() *memCarrier {
	c := &memCarrier{wfail: -1, rfail: -1, dfail: -1, cfail: -1, t0: time.Now()}
	c.cond = sync.NewCond(&c.mu)
	return c
}

// tick: does this call fail?  (mirrors `tick` of the Lean model)
func tick(k *int) bool {
	if *k < 0 {
		return false
	}
	if *k == 0 {
		return true
	}
	*k--
	return false
}

func (c *memCarrier) Write(p []byte) (int, error) {
	c.mu.Lock()
	defer c.mu.Unlock()
	c.nWrite++
	o := nextOrd()
	if c.closed {
		if c.firstWriteErrOrd == 0 {
			c.firstWriteErrOrd, c.firstWriteErrAt = o, time.Since(c.t0)
		}
		return 0, errClosed
	}
	if tick(&c.wfail) {
		if c.firstWriteErrOrd == 0 {
			c.firstWriteErrOrd, c.firstWriteErrAt = o, time.Since(c.t0)
		}
		return 0, errInjected
	}
	c.wire = append(c.wire, p...)
	c.writes = append(c.writes, writeRec{end: len(c.wire), at: time.Since(c.t0), ord: o})
	return len(p), nil
}

func calledFromBaseConnClose() bool {
	pc := make([]uintptr, 16)
	n := runtime.Callers(2, pc)
	fr := runtime.CallersFrames(pc[:n])
	for {
		f, more := fr.Next()
		if strings.HasSuffix(f.Function, "transport.(*BaseConn).Close") {
			return true
		}
		if !more {
			return false
		}
	}
}

func (c *memCarrier) Close() error {
	byClose := calledFromBaseConnClose()
	c.mu.Lock()
	defer c.mu.Unlock()
	c.nClose++
	o := nextOrd()
	if c.firstCloseOrd == 0 {
		c.firstCloseOrd = o
		c.firstCloseAt = time.Since(c.t0)
		c.firstCloseByClose = byClose
		c.closeAtWire = len(c.wire)
	}
	if c.closed {
		return errClosed
	}
	c.closed = true
	c.cond.Broadcast()
	if tick(&c.cfail) {
		return errInjected
	}
	return nil
}

func (c *memCarrier) SetReadDeadline(t time.Time) error {
	c.mu.Lock()
	defer c.mu.Unlock()
	c.nDeadline++
	if c.closed && !c.dlClosedOK {
		return errClosed
	}
	if tick(&c.dfail) {
		return errInjected
	}
	c.deadline = t
	c.expiredRep = false
	if c.dlTimer != nil {
		c.dlTimer.Stop()
		c.dlTimer = nil
	}
	if !t.IsZero() {
		d := time.Until(t)
		if d < 0 {
			d = 0
		}
		c.dlTimer = time.AfterFunc(d, func() {
			c.mu.Lock()
			c.cond.Broadcast()
			c.mu.Unlock()
		})
	}
	c.cond.Broadcast()
	return nil
}

func (c *memCarrier) Read(p []byte) (int, error) {
	c.mu.Lock()
	defer c.mu.Unlock()
	c.nRead++
	for {
		if c.closed {
			return 0, errClosed
		}
		if c.rfail == 0 {
			return 0, errInjected
		}
		expired := !c.deadline.IsZero() && !time.Now().Before(c.deadline)
		if expired || len(c.inbox) > 0 || c.peerClosed {
			if c.rfail > 0 {
				c.rfail--
			}
			if expired {
				return 0, timeoutErr{}
			}
			if len(c.inbox) > 0 {
				n := copy(p, c.inbox)
				c.inbox = c.inbox[n:]
				return n, nil
			}
			return 0, io.EOF
		}
		c.cond.Wait()
	}
}

// ---- the environment's side

func (c *memCarrier) peerData(b []byte) {
	c.mu.Lock()
	if !c.peerClosed {
		c.inbox = append(c.inbox, b...)
	}
	c.cond.Broadcast()
	c.mu.Unlock()
}

func (c *memCarrier) peerClose() {
	c.mu.Lock()
	c.peerClosed = true
	c.cond.Broadcast()
	c.mu.Unlock()
}

func (c *memCarrier) fail(kind string, k int) {
	c.mu.Lock()
	switch kind {
	case "write":
		c.wfail = k
	case "read":
		c.rfail = k
	case "deadline":
		c.dfail = k
	case "close":
		c.cfail = k
	}
	c.cond.Broadcast()
	c.mu.Unlock()
}

func (c *memCarrier) isClosed() bool {
	c.mu.Lock()
	defer c.mu.Unlock()
	return c.closed
}

// deadlineDue reports (once per armed deadline) that the read deadline has passed
func (c *memCarrier) deadlineDue() bool {
	c.mu.Lock()
	defer c.mu.Unlock()
	if !c.deadline.IsZero() && !c.expiredRep && !time.Now().Before(c.deadline) {
		c.expiredRep = true
		return true
	}
	return false
}

func (c *memCarrier) stopTimers() {
	c.mu.Lock()
	if c.dlTimer != nil {
		c.dlTimer.Stop()
		c.dlTimer = nil
	}
	c.mu.Unlock()
}

func (c *memCarrier) wireCopy() []byte {
	c.mu.Lock()
	defer c.mu.Unlock()
	return append([]byte{}, c.wire...)
}
