package conntrace

import (
	"errors"
	"fmt"
	"io"
	"runtime"
	"sync"
	"sync/atomic"
	"testing"
	"time"

	"github.com/256dpi/gomqtt/packet"
	"github.com/256dpi/gomqtt/transport"

	"verifharness/lib/gen"
	"verifharness/lib/out"
)

// ---------------------------------------------------------------- buffer ownership during a send
//
// The encoder works in a buffer from a package-wide sync.Pool; the bytes it hands to the writer
// belong to the send until the carrier write has returned (packets that do not fit the free space
// of the 4 KiB bufio buffer go to the carrier straight from that buffer).  This family makes the
// window wide and uses it: the carrier's Write PARKS before it copies the bytes it was given (it
// still owns nothing — the slice is the caller's until Write returns), and while the sender is
// parked other users of the pool run: the receive side of the same connection is fed a packet of
// similar size, and a second connection sends and receives one.  All hand-overs are channel
// handshakes (no clock, no synctest), one P (sync.Pool hands a buffer back from the per-P slot), so
// the schedule is deterministic.  Monitor (independent of the model):
//
//  wire-packet-corrupted   a whole packet on a carrier's byte stream is not byte for byte one of the
//                          packets handed to Send (unique ids, full compare), or the stream does not
//                          parse although no call failed, or an accepted packet is missing after
//                          Close(), or a received packet differs from what the peer sent

type parkCarrier struct {
	mu      sync.Mutex
	cond    *sync.Cond
	wire    []byte
	inbox   []byte
	closed  bool
	park    atomic.Bool
	parked  chan int
	release chan struct{}
	// the read side's ways to fail (set by the harness, no clock involved)
	peerEOF  bool // the peer hung up
	timedOut bool // the armed read deadline has expired
	dlArmed  bool
	dlFail   bool // SetReadDeadline fails
}

type parkTimeout struct{}

func (parkTimeout) Error() string   { return "parkcarrier: i/o timeout" }
func (parkTimeout) Timeout() bool   { return true }
func (parkTimeout) Temporary() bool { return true }

func newParkCarrier(park bool) *parkCarrier {
	c := &parkCarrier{parked: make(chan int), release: make(chan struct{})}
	c.park.Store(park)
	c.cond = sync.NewCond(&c.mu)
	return c
}

func (c *parkCarrier) Write(p []byte) (int, error) {
	if c.park.Load() {
		c.parked <- len(p) // the bytes have not been looked at yet
		<-c.release
	}
	c.mu.Lock()
	defer c.mu.Unlock()
	if c.closed {
		return 0, errors.New("parkcarrier: closed")
	}
	c.wire = append(c.wire, p...)
	return len(p), nil
}

func (c *parkCarrier) Read(p []byte) (int, error) {
	c.mu.Lock()
	defer c.mu.Unlock()
	for len(c.inbox) == 0 && !c.closed && !c.peerEOF && !(c.timedOut && c.dlArmed) {
		c.cond.Wait()
	}
	if c.timedOut && c.dlArmed && !c.closed {
		return 0, parkTimeout{}
	}
	if len(c.inbox) > 0 {
		n := copy(p, c.inbox)
		c.inbox = c.inbox[n:]
		return n, nil
	}
	return 0, io.EOF
}

func (c *parkCarrier) isClosed() bool {
	c.mu.Lock()
	defer c.mu.Unlock()
	return c.closed
}

// breakRead makes the read side fail in one of its ways
func (c *parkCarrier) breakRead(how string) {
	c.mu.Lock()
	switch how {
	case "peer-eof":
		c.peerEOF = true
	case "read-timeout":
		c.timedOut = true
	case "garbage":
		c.inbox = append(c.inbox, 0x00, 0x00) // type 0: no such packet
	case "deadline-reset-fails":
		c.dlFail = true
		c.inbox = append(c.inbox, enc(packet.NewPingreq())...) // a good packet; the re-arming of the deadline after it fails
	}
	c.cond.Broadcast()
	c.mu.Unlock()
}

func (c *parkCarrier) Close() error {
	c.mu.Lock()
	c.closed = true
	c.cond.Broadcast()
	c.mu.Unlock()
	return nil
}

func (c *parkCarrier) SetReadDeadline(t time.Time) error {
	c.mu.Lock()
	defer c.mu.Unlock()
	if c.dlFail {
		return errors.New("parkcarrier: injected deadline failure")
	}
	c.dlArmed = !t.IsZero()
	return nil
}

func (c *parkCarrier) feed(b []byte) {
	c.mu.Lock()
	c.inbox = append(c.inbox, b...)
	c.cond.Broadcast()
	c.mu.Unlock()
}

// uPacket: a PUBLISH with id "<g>:<seq>|" whose padding depends on the id (so that bytes of any other
// packet in its place are seen)
func uPacket(topic string, g, seq, size int) *packet.Publish {
	p := packet.NewPublish()
	p.Message.Topic = topic
	pl := []byte(fmt.Sprintf("%d:%d|", g, seq))
	for i := len(pl); i < size; i++ {
		pl = append(pl, byte(33+(g*31+seq*7+i*13)%90))
	}
	p.Message.Payload = pl
	return p
}

type poolKey struct{ g, seq int }

func poolCase(o *out.W, r *gen.Rng) {
	o.Case("C19 buffer ownership")
	o.Op("# buffer ownership", "# buffer ownership")
	var trace []string
	hits := 0
	hit := func(detail string) {
		if hits < 5 {
			o.Monitor("C19", "wire-packet-corrupted", detail, append([]string{}, trace...))
		}
		hits++
	}
	delay := time.Duration(0)
	if r.Bool() {
		delay = time.Hour // buffered sends stay in the bufio buffer until a flushed send / Close
	}
	carA, carB := newParkCarrier(true), newParkCarrier(false)
	A, B := transport.NewBaseConn(carA), transport.NewBaseConn(carB)
	A.SetMaxWriteDelay(delay)
	nsend := 1 + r.Intn(4)
	trace = append(trace, fmt.Sprintf("connection A over a carrier whose Write parks before copying, flush delay %v, %d sender goroutines taking turns; "+
		"while a write is parked: inbound packet to A's receiver, connection B sends and receives", delay, nsend))

	sentA, sentB := map[poolKey][]byte{}, map[poolKey][]byte{}
	var orderA []poolKey
	// A's receiver
	recvA := make(chan []byte, 1)
	go func() {
		for {
			p, err := A.Receive()
			if err != nil {
				close(recvA)
				return
			}
			recvA <- enc(p)
		}
	}()
	nin, nb := 0, 0
	size := func() int {
		switch r.Intn(6) {
		case 0:
			return 3000 + r.Intn(1000)
		case 1:
			return 40 + r.Intn(200)
		default:
			return 4200 + r.Intn(5000)
		}
	}
	interfere := func(n int) {
		// the receive side of the same connection
		if r.Intn(4) != 0 {
			nin++
			in := enc(uPacket("in/a", 700, nin, n+r.Intn(64)-32))
			carA.feed(in)
			if got, ok := <-recvA; !ok || string(got) != string(in) {
				hit(fmt.Sprintf("A received a packet that differs from inbound packet 700:%d", nin))
			}
		}
		// another connection of the process
		if r.Intn(4) != 0 {
			nb++
			p := uPacket("b/out", 800, nb, n+r.Intn(64)-32)
			sentB[poolKey{800, nb}] = enc(p)
			if err := B.Send(p, r.Bool()); err != nil {
				hit("B.Send failed: " + err.Error())
			}
		}
		if r.Intn(3) == 0 {
			nin++
			in := enc(uPacket("in/b", 701, nin, n+r.Intn(64)-32))
			carB.feed(in)
			if p, err := B.Receive(); err != nil || string(enc(p)) != string(in) {
				hit(fmt.Sprintf("B received a packet that differs from inbound packet 701:%d", nin))
			}
		}
	}
	// serve the parked writes of A until `done` fires
	serve := func(done chan error) error {
		for {
			select {
			case n := <-carA.parked:
				interfere(n)
				carA.release <- struct{}{}
			case err := <-done:
				return err
			}
		}
	}
	type job struct {
		p     *packet.Publish
		async bool
	}
	jobs := make([]chan job, nsend+1)
	done := make(chan error)
	for g := 1; g <= nsend; g++ {
		jobs[g] = make(chan job)
		go func(ch chan job) {
			for j := range ch {
				done <- A.Send(j.p, j.async)
			}
		}(jobs[g])
	}
	seq := map[int]int{}
	for i, n := 0, 8+r.Intn(16); i < n; i++ {
		g := 1 + r.Intn(nsend)
		seq[g]++
		p := uPacket(fmt.Sprintf("a/%d", g), g, seq[g], size())
		k := poolKey{g, seq[g]}
		sentA[k] = enc(p)
		orderA = append(orderA, k)
		async := r.Intn(3) != 0
		trace = append(trace, fmt.Sprintf("A.Send %d:%d (%d bytes, async=%v)", g, seq[g], len(sentA[k]), async))
		jobs[g] <- job{p, async}
		if err := serve(done); err != nil {
			hit(fmt.Sprintf("send %d:%d failed: %v", g, seq[g], err))
		}
	}
	for g := 1; g <= nsend; g++ {
		close(jobs[g])
	}
	go func() { done <- A.Close() }()
	_ = serve(done)
	_ = B.Close()
	for range recvA {
	}

	check := func(name string, wire []byte, sent map[poolKey][]byte, order []poolKey) {
		pkts, _, rest, derr := decodeWire(wire)
		if derr != io.EOF || rest != 0 {
			hit(fmt.Sprintf("%s: the carrier's byte stream stops parsing %d bytes before its end (%v) although no call failed", name, rest, derr))
		}
		seen := map[poolKey]bool{}
		i := 0
		for _, p := range pkts {
			g, s, ok := pktKey(p)
			want, known := sent[poolKey{g, s}]
			switch {
			case !ok || !known:
				hit(fmt.Sprintf("%s: a packet on the wire was never handed to Send: %.120s", name, p.String()))
				continue
			case seen[poolKey{g, s}]:
				hit(fmt.Sprintf("%s: packet %d:%d is on the wire twice", name, g, s))
			case string(enc(p)) != string(want):
				hit(fmt.Sprintf("%s: packet %d:%d on the wire differs from the packet handed to Send", name, g, s))
			}
			seen[poolKey{g, s}] = true
			if order != nil {
				if i >= len(order) || order[i] != (poolKey{g, s}) {
					hit(fmt.Sprintf("%s: packet %d:%d is out of order on the wire", name, g, s))
				}
				i++
			}
		}
		for k := range sent {
			if !seen[k] {
				hit(fmt.Sprintf("%s: accepted packet %d:%d is not on the wire after Close()", name, k.g, k.seq))
			}
		}
	}
	check("A", carA.wire, sentA, orderA)
	check("B", carB.wire, sentB, nil)
	o.Count("pool/cases")
	o.Count(fmt.Sprintf("pool/sends-A/%02d", len(sentA)/8*8))
	if hits > 0 {
		o.Count("pool/cases-with-hits")
	}
}

// ---------------------------------------------------------------- a receive error while a send is stuck in the carrier
//
// "After … any send or receive error or an expired read timeout no call blocks": the peer has
// stopped reading (the carrier's Write is parked inside a Send, which holds sendMutex) and now the
// receive side fails — the read timeout expires, the peer hangs up, undecodable bytes arrive, or
// re-arming the deadline fails.  Receive must return its error and close the carrier WHILE the
// write is still parked (closing the carrier is what frees a writer stuck on a real socket); the
// parked Send must return once its write is let go, and later calls must fail without waiting.
// Channel handshakes only; the real-time bound below is spent only when the property is violated.
//
//  receive-blocked-behind-send   Receive did not return its error (or left the carrier open) while
//                                a Send was parked inside the carrier write
//  call-blocked                  the parked Send / a later call did not return

const stallBound = 5 * time.Second // generous: only spent when the property is violated; must not trip on a loaded machine

func stallCase(o *out.W, r *gen.Rng, how string) {
	o.Case("C19 receive error behind a stuck send: " + how)
	o.Op("# stuck send "+how, "# stuck send "+how)
	var trace []string
	hit := func(kind, detail string) { o.Monitor("C19", kind, how+": "+detail, append([]string{}, trace...)) }
	car := newParkCarrier(true)
	A := transport.NewBaseConn(car)
	A.SetReadTimeout(time.Hour) // arms the carrier's deadline; it "expires" when the harness says so
	async := r.Bool()
	if r.Bool() {
		A.SetMaxWriteDelay(time.Hour)
	}
	size := 4200 + r.Intn(5000) // goes to the carrier straight away, whatever the mode
	trace = append(trace, fmt.Sprintf("A.Send(%d-byte PUBLISH, async=%v) is parked inside carrier.Write (peer not reading); then the read side fails: %s", size, async, how))

	recvDone := make(chan error, 1)
	go func() {
		for {
			_, err := A.Receive()
			if err != nil {
				recvDone <- err
				return
			}
		}
	}()
	sendDone := make(chan error, 1)
	go func() { sendDone <- A.Send(uPacket("a/1", 1, 1, size), async) }()
	select {
	case <-car.parked:
	case <-time.After(stallBound):
		hit("call-blocked", "the send never reached the carrier")
		return
	}
	// the write is parked: Send holds sendMutex.  Now the receive side fails.
	car.breakRead(how)
	recvReturned := false
	select {
	case err := <-recvDone:
		recvReturned = true
		if err == nil {
			hit("receive-blocked-behind-send", "Receive returned without an error")
		}
		if !car.isClosed() {
			hit("receive-blocked-behind-send", "Receive returned its error but the carrier is still open while the write is parked")
		}
	case <-time.After(stallBound):
		hit("receive-blocked-behind-send", fmt.Sprintf("Receive has not returned %v after the read side failed while a Send is parked inside the carrier write; carrier closed: %v", stallBound, car.isClosed()))
	}
	// let the parked write go (later writes do not park)
	car.park.Store(false)
	car.release <- struct{}{}
	select {
	case err := <-sendDone:
		if recvReturned && err == nil {
			hit("error-left-carrier-open", "the parked Send succeeded although Receive had failed (carrier should have been closed)")
		}
	case <-time.After(stallBound):
		hit("call-blocked", "the parked Send did not return after its carrier write was let go")
	}
	if !recvReturned {
		select {
		case <-recvDone:
		case <-time.After(stallBound):
			hit("call-blocked", "Receive still has not returned after the parked Send finished")
		}
	}
	// afterwards nothing waits and everything fails
	after := make(chan string, 1)
	go func() {
		res := ""
		if err := A.Send(uPacket("a/1", 1, 2, 10), false); err == nil {
			res += "flushed send succeeded; "
		}
		if _, err := A.Receive(); err == nil {
			res += "receive succeeded; "
		}
		_ = A.Close()
		after <- res
	}()
	select {
	case res := <-after:
		if res != "" {
			hit("send-ok-after-error", "after the receive error: "+res)
		}
	case <-time.After(stallBound):
		hit("call-blocked", "Send / Receive / Close after the receive error did not return")
	}
	o.Count("stall/" + how)
}

// poolFamily runs the parking-carrier cases on one P and puts GOMAXPROCS back
func poolFamily(t *testing.T, o *out.W, r *gen.Rng, n int) {
	old := runtime.GOMAXPROCS(1)
	defer runtime.GOMAXPROCS(old)
	for i := 0; i < n; i++ {
		poolCase(o, r.Fork())
	}
	hows := []string{"read-timeout", "peer-eof", "garbage", "deadline-reset-fails"}
	for i := 0; i < n; i++ {
		stallCase(o, r.Fork(), hows[i%len(hows)])
	}
}
