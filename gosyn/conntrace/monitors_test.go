package conntrace

import (
	"fmt"
	"io"
	"sort"
)

// runMonitors checks C19 directly on what the real connection did, from the carrier's byte log
// and the call records alone (no Lean model, no look inside the writer):
//
//  wire-not-whole-packets      the carrier's byte stream does not parse (real packet.Decoder) into
//                              whole packets; a torn tail is allowed only after a failed send
//  wire-unknown-packet         a packet on the wire that nobody sent / a duplicate
//  errored-send-on-wire        a send that returned an error is nevertheless whole on the wire
//  sender-order                packets of one sender out of order, or an accepted one skipped
//                              while a later one of the same sender is on the wire
//  close-lost-accepted-send    a send returned nil before Close() was called, Close() was the
//                              first to close the carrier, no write had been refused — and the
//                              packet was not on the wire when the carrier's Close was called
//  accepted-send-never-flushed an accepted buffered send is not on the wire after its flush delay
//                              although the carrier was open and no write was refused till then
//  send-ok-after-close         a flushed send started after Close() returned and succeeded
//  send-ok-after-error         a send succeeded although an earlier send (valid packet) had failed
//  send-ok-after-delay         after Close(): a send succeeded later than one flush delay after an
//                              earlier accepted buffered send (the error must have surfaced)
//  receive-ok-after-close      (net.Conn-like carrier) a Receive started after Close() returned a packet
//  error-left-carrier-open     Send/Receive returned an error and the carrier is not closed
//  call-waited                 Send/Close took fake time, or a Receive started after the carrier
//                              was closed did; a Receive pending at Close() outlived that instant
func runMonitors(w *world) {
	w.mu.Lock()
	calls := append([]*call{}, w.calls...)
	w.mu.Unlock()
	car := w.car
	car.mu.Lock()
	wire := append([]byte{}, car.wire...)
	writes := append([]writeRec{}, car.writes...)
	firstWErr, firstCloseOrd, byClose, closeAtWire := car.firstWriteErrOrd, car.firstCloseOrd, car.firstCloseByClose, car.closeAtWire
	dlOK := car.dlClosedOK
	firstWErrAt, firstCloseAt := int64(car.firstWriteErrAt), int64(car.firstCloseAt)
	car.mu.Unlock()

	type key struct{ g, seq int }
	sends := map[key]*call{}
	var firstSendErr int64 // s1 of the first failed send of a valid packet
	anySendErr := false
	for _, c := range calls {
		if c.kind == "send" {
			sends[key{c.g, c.seq}] = c
			if c.done && c.err != nil {
				anySendErr = true
				if firstSendErr == 0 || c.s1 < firstSendErr {
					firstSendErr = c.s1
				}
			}
		}
	}

	// ---- the wire parses into whole packets
	pkts, ends, rest, derr := decodeWire(wire)
	if derr != io.EOF || rest != 0 {
		if !anySendErr && firstWErr == 0 {
			w.hit("wire-not-whole-packets", fmt.Sprintf("carrier stream ends with %d undecodable bytes (%v) although no send failed", rest, derr))
		} else if derr != io.ErrUnexpectedEOF && derr != io.EOF {
			// a torn packet is a proper prefix of an encoding: the decoder can only run out of bytes
			w.hit("wire-not-whole-packets", fmt.Sprintf("carrier stream is not a sequence of whole packets plus a torn tail: %v", derr))
		}
	}
	onWire := map[key]int{} // → end offset
	lastSeq := map[int]int{}
	for i, p := range pkts {
		g, seq, ok := pktKey(p)
		if !ok {
			w.hit("wire-unknown-packet", fmt.Sprintf("packet #%d on the wire was not sent by anybody: %s", i, p.String()))
			continue
		}
		k := key{g, seq}
		c := sends[k]
		if c == nil {
			w.hit("wire-unknown-packet", fmt.Sprintf("packet %d:%d on the wire was never sent", g, seq))
			continue
		}
		if _, dup := onWire[k]; dup {
			w.hit("wire-unknown-packet", fmt.Sprintf("packet %d:%d is on the wire twice", g, seq))
		}
		onWire[k] = ends[i]
		if string(enc(p)) != string(c.enc) {
			w.hit("wire-not-whole-packets", fmt.Sprintf("packet %d:%d on the wire differs from what was sent", g, seq))
		}
		if c.done && c.err != nil {
			w.hit("errored-send-on-wire", fmt.Sprintf("send %d:%d returned an error but the whole packet is on the wire", g, seq))
		}
		if seq <= lastSeq[g] {
			w.hit("sender-order", fmt.Sprintf("sender %d: packet %d on the wire after packet %d", g, seq, lastSeq[g]))
		}
		lastSeq[g] = seq
	}
	// an accepted packet may be missing only if every later accepted one of that sender is missing too
	for k, c := range sends {
		if c.done && c.err == nil {
			if _, ok := onWire[k]; !ok && lastSeq[k.g] > k.seq {
				w.hit("sender-order", fmt.Sprintf("sender %d: accepted packet %d is missing but packet %d is on the wire", k.g, k.seq, lastSeq[k.g]))
			}
		}
	}

	// ---- Close() delivers what was accepted before it
	var closes []*call
	for _, c := range calls {
		if c.kind == "close" {
			closes = append(closes, c)
		}
	}
	sort.Slice(closes, func(i, j int) bool { return closes[i].s0 < closes[j].s0 })
	var firstCloseRet int64 // s1 of the Close() that returned first
	var firstCloseRetT int64 = -1
	for _, c := range closes {
		if c.done && (firstCloseRet == 0 || c.s1 < firstCloseRet) {
			firstCloseRet = c.s1
			firstCloseRetT = int64(c.t1)
		}
	}
	if firstCloseOrd != 0 && byClose && (firstWErr == 0 || firstWErr > firstCloseOrd) {
		// the Close() call that closed the carrier: the one whose interval contains firstCloseOrd
		for _, cc := range closes {
			if cc.s0 < firstCloseOrd && (!cc.done || firstCloseOrd < cc.s1) {
				for k, c := range sends {
					if c.done && c.err == nil && c.s1 < cc.s0 {
						if end, ok := onWire[k]; !ok || end > closeAtWire {
							w.hit("close-lost-accepted-send", fmt.Sprintf("send %d:%d (async=%v) returned nil before Close() was called; the carrier was closed without it", k.g, k.seq, c.async))
						}
					}
				}
				break
			}
		}
	}

	// ---- buffered sends reach the wire within the flush delay
	wireTime := func(end int) (int64, bool) {
		for _, wr := range writes {
			if wr.end >= end {
				return int64(wr.at), true
			}
		}
		return 0, false
	}
	for k, c := range sends {
		if !(c.done && c.err == nil) {
			continue
		}
		due := int64(c.t1 + w.delay)
		// was the carrier healthy up to the end of that instant?  a refusal or a close at a time <= due
		// excuses the send here (it is judged by close-lost-accepted-send / the model comparison instead)
		if (firstWErr != 0 && firstWErrAt <= due) || (firstCloseOrd != 0 && firstCloseAt <= due) {
			continue
		}
		end, ok := onWire[k]
		if !ok {
			w.hit("accepted-send-never-flushed", fmt.Sprintf("send %d:%d was accepted and never reached the wire", k.g, k.seq))
			continue
		}
		if at, _ := wireTime(end); at > due {
			w.hit("accepted-send-never-flushed", fmt.Sprintf("send %d:%d accepted at %v reached the wire at %v, flush delay %v", k.g, k.seq, c.t1, at, w.delay))
		}
	}

	// ---- after a close / an error
	var okAfterCloseT int64 = -1 // earliest end time of a buffered send accepted after Close() returned
	for _, c := range calls {
		if !c.done {
			continue
		}
		switch c.kind {
		case "send":
			if c.t1 != c.t0 {
				w.hit("call-waited", fmt.Sprintf("send %d:%d took %v", c.g, c.seq, c.t1-c.t0))
			}
			if c.err != nil && !c.closedAtReturn {
				w.hit("error-left-carrier-open", fmt.Sprintf("send %d:%d returned %v, carrier still open", c.g, c.seq, c.err))
			}
			if c.err == nil && firstSendErr != 0 && c.s0 > firstSendErr {
				w.hit("send-ok-after-error", fmt.Sprintf("send %d:%d succeeded after an earlier send had failed", c.g, c.seq))
			}
			if firstCloseRet != 0 && c.s0 > firstCloseRet {
				if c.err == nil && (!c.async || w.delay == 0) {
					w.hit("send-ok-after-close", fmt.Sprintf("flushed send %d:%d started after Close() returned and succeeded", c.g, c.seq))
				}
				if c.err == nil && c.async {
					if okAfterCloseT >= 0 && int64(c.t0) > okAfterCloseT+int64(w.delay) {
						w.hit("send-ok-after-delay", fmt.Sprintf("buffered send %d:%d succeeded at %v, more than the flush delay after the send accepted at %v following Close()", c.g, c.seq, c.t0, okAfterCloseT))
					}
					if okAfterCloseT < 0 {
						okAfterCloseT = int64(c.t1)
					}
				}
			}
		case "sendbad":
			if c.err == nil {
				w.hit("send-ok-after-error", "a packet that cannot be encoded was accepted")
			} else if !c.closedAtReturn {
				w.hit("error-left-carrier-open", "send of an unencodable packet failed, carrier still open")
			}
		case "close":
			if c.t1 != c.t0 {
				w.hit("call-waited", fmt.Sprintf("Close() took %v", c.t1-c.t0))
			}
		case "recv":
			if c.err != nil && !c.closedAtReturn {
				w.hit("error-left-carrier-open", fmt.Sprintf("Receive returned %v, carrier still open", c.err))
			}
			if firstCloseRet != 0 && c.s0 > firstCloseRet {
				if c.err == nil && !dlOK {
					w.hit("receive-ok-after-close", "a Receive started after Close() returned handed out a packet")
				}
				if c.t1 != c.t0 {
					w.hit("call-waited", fmt.Sprintf("a Receive started after Close() returned took %v", c.t1-c.t0))
				}
			}
			if firstCloseRet != 0 && c.s0 < firstCloseRet && c.s1 > firstCloseRet && int64(c.t1) > firstCloseRetT {
				w.hit("call-waited", fmt.Sprintf("a Receive pending at Close() returned only at %v (Close returned at %v)", c.t1, firstCloseRetT))
			}
		}
	}
}
