package clienttrace

import (
	"fmt"
	"strings"

	"github.com/256dpi/gomqtt/packet"
	"github.com/256dpi/gomqtt/session"

	"verifharness/lib/wire"
)

// Monitors: every clause of C09 / C10 checked on the recorded behaviour of the real client with
// oracles of their own (they never consult the Lean model).  Kinds (stable strings):
//
//	C09  sent-before-stored            QoS>=1 PUBLISH handed to the connection before SavePacket succeeded
//	     kept-until-acked              a stored PUBLISH is gone although no PUBACK/PUBCOMP arrived
//	     id-reused-while-unacked       a request was stored / sent under the packet id of a publish of this client that is
//	                                   still unacknowledged (MQTT 3.1.1 §2.3.1); the id-wrap case (script_test.go) has its
//	                                   own copy of this check, plus future-cancelled-while-connected and resend-missing for
//	                                   the publish whose id was taken
//	     pubrec-replaces               after PUBREC the stored packet is not the PUBREL
//	     resend-wrong / resend-missing retransmission after CONNACK differs from the store (order, dup flag, completeness)
//	     future-completed-without-ack  a future completed although no acknowledgement for its id was delivered
//	     future-pending-after-end      the connection ended / the client was closed and a future is still pending
//	     future-pending-after-race     … where the call raced the end of the connection (defect 14 signature)
//	     processor-exit-without-cleanup the processor stopped reading without die(): no callback, no cleanup
//	     close-hangs / disconnect-hangs
//	     accessor-panic
//	C10  qos2-callback-twice           a QoS 2 message reached the application twice in one handshake (default mode)
//	     qos2-completed-without-callback  PUBCOMP reached the broker although the application never got the message
//	     pubrec-missing                a QoS 2 PUBLISH was not answered
//	     pubcomp-missing               a PUBREL for a stored id was not answered
//	     pubcomp-missing-unknown-id    a PUBREL for an id the client does not know was not answered
//	     qos01-order / qos01-not-delivered
//	     puback-missing / ack-before-callback
//	     ack-after-callback-error / conn-open-after-callback-error
//	     callback-message-mutated      a *packet.Message handed to the callback reads differently later (at the next
//	                                   callback / at the end of the case) than the deep snapshot taken when it was handed
//	                                   over (world_test.go: keptMsg) — each message is passed on exactly once, intact
type oracle struct {
	i int // next history entry to look at

	// C09
	wantOut    map[packet.ID]string // what the session must hold for an id: publish | pubrel
	ownPub     map[packet.ID]bool   // wantOut[id] goes back to a QoS>=1 publish of the client itself (not to a spurious PUBREC)
	recFor     packet.ID            // PUBREC being processed
	ackFor     packet.ID            // PUBACK/PUBCOMP/SUBACK/UNSUBACK being processed
	allAt      int                  // index of the last `all ok` event, -1
	resendChk  bool
	ended      map[int]string // generation -> why its connection counts as ended
	cleanupBy  map[int]bool   // generation -> some cleanup / die ran
	raced      map[*call]bool // calls that were parked while the connection went away
	zombieSeen map[int]bool

	// C10
	early      bool
	pendCb     *packet.Publish // QoS<=1 PUBLISH handed over, callback not seen yet
	pendAck    packet.ID       // QoS 1: callback accepted, PUBACK not seen yet
	pendRec    packet.ID
	pendComp   packet.ID
	compKnown  bool
	banned     map[packet.ID]bool // callback returned an error for the message with this id
	wantClosed bool
	curPub     *packet.Publish
	cbSeen     bool
	curRel     packet.ID
}

func newOracle() *oracle {
	return &oracle{wantOut: map[packet.ID]string{}, ownPub: map[packet.ID]bool{}, allAt: -1, ended: map[int]string{}, cleanupBy: map[int]bool{},
		raced: map[*call]bool{}, banned: map[packet.ID]bool{}, zombieSeen: map[int]bool{}}
}

func isAck(p packet.Generic) (packet.ID, bool) {
	switch x := p.(type) {
	case *packet.Puback:
		return x.ID, true
	case *packet.Pubcomp:
		return x.ID, true
	case *packet.Suback:
		return x.ID, true
	case *packet.Unsuback:
		return x.ID, true
	}
	return 0, false
}

// excuse drops every expectation that the end of the connection makes moot
func (o *oracle) excuse() {
	o.pendCb, o.pendAck, o.pendRec, o.pendComp = nil, 0, 0, 0
}

// advance feeds the new part of the history to the oracles (called at quiescence)
func (w *World) advance() {
	o := w.orc
	w.mu.Lock()
	h := w.hist
	w.mu.Unlock()
	for ; o.i < len(h); o.i++ {
		e := h[o.i]
		switch e.kind {
		case "newclient":
			o.excuse()
			o.banned = map[packet.ID]bool{}
			o.wantClosed = false
			o.early = false
		case "call":
			if e.call.kind == "connect" && w.cfg != nil {
				o.early = w.cfg.AlwaysAnnounceOnPublish
			}
			if e.call.kind == "close" || e.call.kind == "disconnect" {
				o.cleanupBy[e.gen] = true
			}
		case "ret":
			c := e.call
			switch {
			case (c.kind == "close" || c.kind == "disconnect") && c.ret != "notconnected":
				o.ended[e.gen] = c.kind + " returned"
				o.excuse()
			case c.ret == "err":
				o.cleanupBy[e.gen] = true
				o.ended[e.gen] = c.kind + " failed (cleanup ran)"
				o.excuse()
			}
		case "drop":
			o.ended[e.gen] = "the broker closed the connection"
		case "cberr":
			o.cleanupBy[e.gen] = true
			o.ended[e.gen] = "die() ran (error callback)"
			o.excuse()
		case "closec":
			o.cleanupBy[e.gen] = true
			o.wantClosed = false
			o.excuse()
		case "reset":
			if e.ok {
				o.wantOut = map[packet.ID]string{}
				o.ownPub = map[packet.ID]bool{}
			}
		case "save":
			if e.dir == "out" {
				if _, isPub := e.pkt.(*packet.Publish); isPub && e.th == "a" && e.ok {
					if o.ownPub[e.id] && o.wantOut[e.id] != "" {
						w.hit("id-reused-while-unacked", fmt.Sprintf("a new PUBLISH was stored under packet id %d while the %s of an earlier publish is still recorded under it (unacknowledged)", e.id, o.wantOut[e.id]))
					}
					o.wantOut[e.id], o.ownPub[e.id] = "publish", true
				}
				if _, isRel := e.pkt.(*packet.Pubrel); isRel && e.id == o.recFor {
					if e.ok {
						o.wantOut[e.id] = "pubrel"
					}
					o.recFor = 0
				}
			} else if !e.ok {
				o.pendRec = 0
			}
		case "del":
			if e.dir == "out" && e.id == o.ackFor {
				if e.ok {
					delete(o.wantOut, e.id)
					delete(o.ownPub, e.id)
				}
				o.ackFor = 0
			}
			if e.dir == "in" && !e.ok {
				o.pendComp = 0
				// the session could not record that the message was delivered: no client can then
				// avoid a second delivery (outside the quantifier of C10: session failures)
				if r := w.peer.inb[e.id]; r != nil {
					r.tainted = true
				}
			}
		case "lookup":
			if e.dir == "in" && e.id == o.pendComp {
				if !e.ok {
					o.pendComp = 0
				}
				o.compKnown = e.pkt != nil
			}
		case "all":
			if e.ok {
				o.allAt, o.resendChk = o.i, true
			}
		case "recv":
			// what had to follow the previous packet
			if o.pendCb != nil {
				w.hit("qos01-not-delivered", "the next packet was read although the callback for "+wire.ShowPacket(o.pendCb)+" was never invoked")
				o.pendCb = nil
			}
			o.recFor, o.ackFor = 0, 0
			switch p := e.pkt.(type) {
			case *packet.Pubrec:
				o.recFor = p.ID
			case *packet.Publish:
				o.curPub, o.cbSeen = p, false
				if p.Message.QOS <= 1 {
					o.pendCb = p
				} else {
					o.pendRec = p.ID
				}
			case *packet.Pubrel:
				o.pendComp, o.compKnown, o.curRel = p.ID, false, p.ID
			}
			if id, ok := isAck(e.pkt); ok {
				o.ackFor = id
			}
		case "cb":
			if e.msg.QOS <= 1 {
				if o.curPub == nil || o.cbSeen || wire.ShowMessage(e.msg) != wire.ShowMessage(&o.curPub.Message) {
					w.hit("qos01-order", "callback for "+wire.ShowMessage(e.msg)+" which is not the QoS 0/1 message just read (or was announced before)")
				} else {
					if e.ok && o.curPub.Message.QOS == 1 && o.pendCb != nil {
						o.pendAck = o.curPub.ID
					}
					if !e.ok {
						o.banned[o.curPub.ID], o.wantClosed = true, true
					}
				}
				o.cbSeen = true
				o.pendCb = nil
			} else if !e.ok {
				// QoS 2: rejected at PUBLISH (announce mode) or at PUBREL
				if o.pendRec != 0 {
					o.banned[o.pendRec] = true
				}
				if o.pendComp != 0 {
					o.banned[o.pendComp] = true
				}
				o.pendRec, o.pendComp, o.wantClosed = 0, 0, true
			}
			w.peer.callbackSeen(w, e.msg, e.ok, o.early)
		case "send":
			if id, hasID := packet.GetID(e.pkt); hasID && e.th == "a" && o.ownPub[id] && o.wantOut[id] != "" {
				switch e.pkt.(type) {
				case *packet.Subscribe, *packet.Unsubscribe:
					w.hit("id-reused-while-unacked", fmt.Sprintf("%s was sent under packet id %d while the %s of an earlier publish is still recorded under it (unacknowledged)", wire.ShowPacket(e.pkt), id, o.wantOut[id]))
				}
			}
			switch p := e.pkt.(type) {
			case *packet.Publish:
				if e.th == "a" && p.Message.QOS > 0 && !p.Dup && (e.call == nil || !savedBefore(h[:o.i], e.call, p.ID)) {
					w.hit("sent-before-stored", "PUBLISH "+wire.ShowPacket(p)+" was handed to the connection before SavePacket succeeded")
				}
			case *packet.Puback:
				if o.pendCb != nil && o.pendCb.ID == p.ID {
					w.hit("ack-before-callback", "PUBACK "+fmt.Sprint(p.ID)+" sent before the callback was invoked")
				}
				if o.banned[p.ID] {
					w.hit("ack-after-callback-error", "PUBACK "+fmt.Sprint(p.ID)+" sent although the callback returned an error for that message")
				}
				if o.pendAck == p.ID {
					o.pendAck = 0
				}
			case *packet.Pubrec:
				if o.banned[p.ID] {
					w.hit("ack-after-callback-error", "PUBREC "+fmt.Sprint(p.ID)+" sent although the callback returned an error for that message")
				}
				if o.pendRec == p.ID {
					o.pendRec = 0
				}
			case *packet.Pubcomp:
				if o.banned[p.ID] {
					w.hit("ack-after-callback-error", "PUBCOMP "+fmt.Sprint(p.ID)+" sent although the callback returned an error for that message")
				}
				if o.pendComp == p.ID {
					o.pendComp = 0
				}
				if e.ok && !e.lost {
					w.peer.pubcompArrived(w, p.ID, o.early)
				}
			}
		}
	}
}

func savedBefore(h []ev, c *call, id packet.ID) bool {
	for _, e := range h {
		if e.kind == "save" && e.call == c && e.ok && e.dir == "out" && e.id == id {
			return true
		}
	}
	return false
}

// monitorQuiescent: checks that are meaningful when every goroutine is blocked
func (w *World) monitorQuiescent() {
	w.advance()
	o := w.orc
	w.mu.Lock()
	parked := w.parkedTh
	h := w.hist
	conn := w.conn
	gen := w.gen
	var closed, receiving, everRecv bool
	if conn != nil {
		closed, receiving, everRecv = conn.closed, conn.receiving, conn.everRecv
	}
	inQ := 0
	if conn != nil {
		inQ = len(conn.in)
	}
	w.mu.Unlock()
	if parked != "" {
		// a goroutine is held inside a session operation: only record who raced what
		if parked == "a" && w.cur != nil && (o.ended[gen] != "" || o.cleanupBy[gen]) {
			o.raced[w.cur] = true
		}
		return
	}
	if w.cur != nil {
		return // an exported method is still running (Disconnect waiting for futures)
	}

	// ---- C09: the session holds what it has to hold
	for id, want := range o.wantOut {
		p, _ := w.inner.LookupPacket(session.Outgoing, id)
		got := "nothing"
		switch p.(type) {
		case *packet.Publish:
			got = "publish"
		case *packet.Pubrel:
			got = "pubrel"
		}
		if got != want {
			kind := "kept-until-acked"
			if want == "pubrel" {
				kind = "pubrec-replaces"
			}
			w.hit(kind, fmt.Sprintf("id %d: the session holds %s, expected the %s (no acknowledgement that would release it was delivered)", id, got, want))
			delete(o.wantOut, id)
		}
	}
	if o.recFor != 0 && !o.cleanupBy[gen] && o.ended[gen] == "" {
		w.hit("pubrec-replaces", fmt.Sprintf("PUBREC %d was read but the PUBREL was never stored", o.recFor))
		o.recFor = 0
	}

	// ---- C09: retransmission after CONNACK
	if o.resendChk {
		o.resendChk = false
		var got []string
		failed := false
		for _, e := range h[o.allAt+1:] {
			if e.kind == "recv" || e.kind == "recverr" {
				break
			}
			if e.kind == "cberr" || (e.kind == "closec" && e.th != "p") {
				failed = true // torn down from elsewhere while resending
				break
			}
			if e.kind == "send" && e.th == "p" {
				got = append(got, wire.ShowPacket(e.pkt))
				if !e.ok {
					failed = true
					break
				}
			}
		}
		w.mu.Lock()
		want := w.resendWant
		w.mu.Unlock()
		okay := len(got) <= len(want)
		for i := 0; okay && i < len(got); i++ {
			okay = got[i] == want[i]
		}
		if okay && !failed && len(got) != len(want) {
			okay = false
		}
		if !okay {
			w.hit("resend-wrong", fmt.Sprintf("after CONNACK the client sent [%s], the session held [%s]", strings.Join(got, " | "), strings.Join(want, " | ")))
		}
		for id, kind := range o.wantOut {
			found := false
			for _, s := range want {
				if strings.HasPrefix(s, kind+" ") && strings.HasSuffix(s, fmt.Sprintf(" %d", id)) {
					found = true
				}
			}
			if !found {
				w.hit("resend-missing", fmt.Sprintf("id %d (%s) is unacknowledged but was not part of the retransmission [%s]", id, kind, strings.Join(want, " | ")))
			}
		}
	}

	// ---- C09: the processor may stop reading only through die() or after close/disconnect
	if conn != nil && everRecv && !receiving && !closed && !o.cleanupBy[gen] {
		if !o.zombieSeen[gen] {
			o.zombieSeen[gen] = true
			w.hit("processor-exit-without-cleanup", fmt.Sprintf("the processor goroutine is gone (nobody reads the connection, %d packet(s) unread) but die()/cleanup() never ran: no error callback, connection still open", inQ))
		}
	}

	// ---- C09: nothing stays pending once the connection has ended
	for i, fr := range w.futs {
		why := o.ended[fr.gen]
		if fr.gen < gen && why == "" {
			why = "a newer client took over the session"
		}
		if why != "" && fr.last == "pending" && !fr.reported {
			fr.reported = true
			kind := "future-pending-after-end"
			if o.raced[fr.call] {
				kind = "future-pending-after-race"
			} else if o.zombieSeen[fr.gen] {
				kind = "future-pending-after-processor-exit"
			}
			w.hit(kind, fmt.Sprintf("future %d (%s, id %d) is still pending although %s", i, fr.kind, fr.call.id, why))
		}
	}

	// ---- C10
	if o.ended[gen] == "" && !o.cleanupBy[gen] {
		if o.pendCb != nil {
			w.hit("qos01-not-delivered", "no callback for "+wire.ShowPacket(o.pendCb))
			o.pendCb = nil
		}
		if o.pendAck != 0 {
			w.hit("puback-missing", fmt.Sprintf("the callback accepted the QoS 1 message with id %d but no PUBACK was sent", o.pendAck))
			o.pendAck = 0
		}
		if o.pendRec != 0 {
			w.hit("pubrec-missing", fmt.Sprintf("QoS 2 PUBLISH %d was not answered with PUBREC", o.pendRec))
			o.pendRec = 0
		}
		if o.pendComp != 0 {
			kind := "pubcomp-missing"
			if !o.compKnown {
				kind = "pubcomp-missing-unknown-id"
			}
			w.hit(kind, fmt.Sprintf("PUBREL %d was not answered with PUBCOMP: the sender's handshake cannot terminate", o.pendComp))
			o.pendComp = 0
		}
	}
	if o.wantClosed && conn != nil && !closed {
		w.hit("conn-open-after-callback-error", "the callback returned an error but the connection was not closed")
		o.wantClosed = false
	}
}

// monitorResolved is called when a future is seen resolved for the first time
func (w *World) monitorResolved(i int, fr *futRec, st string) {
	if !strings.HasPrefix(st, "completed") {
		return
	}
	w.mu.Lock()
	h := w.hist
	w.mu.Unlock()
	start := 0
	for j, e := range h {
		if e.kind == "call" && e.call == fr.call {
			start = j
		}
	}
	ok := false
	for _, e := range h[start:] {
		switch fr.kind {
		case "connect":
			if c, isC := e.pkt.(*packet.Connack); e.kind == "recv" && isC && c.ReturnCode == packet.ConnectionAccepted {
				ok = true
			}
		case "pub", "sub", "unsub":
			if fr.kind == "pub" && fr.call.msg.QOS == 0 {
				if p, isP := e.pkt.(*packet.Publish); e.kind == "send" && e.ok && e.call == fr.call && isP && p.Message.QOS == 0 {
					ok = true
				}
			} else if e.kind == "del" && e.th == "p" && e.dir == "out" && e.id == fr.call.id && e.ok {
				// the handler of an acknowledgement for this id ran after the request was registered
				// (the acknowledgement itself may have been read a moment before the call: id reuse)
				ok = true
			}
		}
	}
	if !ok {
		w.hit("future-completed-without-ack", fmt.Sprintf("future %d (%s, id %d) completed although no acknowledgement for it was delivered", i, fr.kind, fr.call.id))
	}
}
