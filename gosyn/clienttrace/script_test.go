package clienttrace

import (
	"errors"
	"flag"
	"fmt"
	"runtime"
	"strings"
	"testing"
	"time"

	"github.com/256dpi/gomqtt/client/future"
	"github.com/256dpi/gomqtt/packet"
	"github.com/256dpi/gomqtt/session"

	"verifharness/lib/gen"
	"verifharness/lib/out"
	"verifharness/lib/wire"
)

var (
	fProp   = flag.String("prop", "C09", "property")
	fSeed   = flag.Uint64("seed", 1, "seed")
	fTier   = flag.String("tier", "quick", "quick|thorough")
	fOut    = flag.String("out", "", "output directory")
	fShard  = flag.Int("shard", 0, "shard")
	fNShard = flag.Int("nshard", 1, "shards")
	fFix    = flag.String("fix", "1111", "which repairs the model assumes (defects 9, 10+11, 14, 15)")
	fOnly   = flag.String("only", "", "run only the directed scenario with this name")
	fWrapM  = flag.Int("wrapmodel", 0, "id-wrap: how many of its 65535 rounds are submitted to the Lean model (0: 1500 quick / 6000 thorough, -1: all — the model keeps every future and every send of a run, its cost per step grows with the length of the run: all rounds take several minutes)")
)

// ---------------------------------------------------------------- the scripted broker

type outRec struct {
	id    packet.ID
	kind  string // pub1 pub2 sub unsub
	n     int
	stage int // pub2: 0 PUBREC due, 1 waiting for PUBREL, 2 PUBCOMP due
}

type inRec struct {
	id       packet.ID
	tag      string
	msg      packet.Message
	stage    int // 1 PUBLISH sent, 2 PUBREC received, 3 PUBREL sent
	accepted int
	tainted  bool
}

type peer struct {
	outs      []*outRec
	inb       map[packet.ID]*inRec
	tags      map[string]*inRec
	lastClean bool
	seq       int
}

func newPeer() *peer { return &peer{inb: map[packet.ID]*inRec{}, tags: map[string]*inRec{}} }

func (p *peer) connecting(clean bool) {
	if clean || p.lastClean {
		p.outs, p.inb = nil, map[packet.ID]*inRec{}
	}
	p.lastClean = clean
}

func (p *peer) find(id packet.ID, kinds ...string) *outRec {
	for _, r := range p.outs {
		if r.id == id {
			for _, k := range kinds {
				if r.kind == k {
					return r
				}
			}
		}
	}
	return nil
}

func (p *peer) remove(r *outRec) {
	for i, x := range p.outs {
		if x == r {
			p.outs = append(p.outs[:i], p.outs[i+1:]...)
			return
		}
	}
}

// peerGot: a packet reached the broker (called under w.mu)
func (w *World) peerGot(q packet.Generic) {
	p := w.peer
	switch x := q.(type) {
	case *packet.Publish:
		if x.Message.QOS == 1 && p.find(x.ID, "pub1") == nil {
			p.outs = append(p.outs, &outRec{id: x.ID, kind: "pub1"})
		}
		if x.Message.QOS == 2 && p.find(x.ID, "pub2") == nil {
			p.outs = append(p.outs, &outRec{id: x.ID, kind: "pub2"})
		}
	case *packet.Pubrel:
		if r := p.find(x.ID, "pub2"); r != nil {
			r.stage = 2
		} else {
			p.outs = append(p.outs, &outRec{id: x.ID, kind: "pub2", stage: 2})
		}
	case *packet.Subscribe:
		p.outs = append(p.outs, &outRec{id: x.ID, kind: "sub", n: len(x.Subscriptions)})
	case *packet.Unsubscribe:
		p.outs = append(p.outs, &outRec{id: x.ID, kind: "unsub"})
	case *packet.Pubrec:
		if r := p.inb[x.ID]; r != nil && r.stage == 1 {
			r.stage = 2
		}
	}
}

// feeding: the broker is about to send p
func (p *peer) feeding(w *World, g packet.Generic) {
	switch x := g.(type) {
	case *packet.Publish:
		if x.Message.QOS == 2 {
			if r := p.inb[x.ID]; r == nil {
				r = &inRec{id: x.ID, tag: string(x.Message.Payload), msg: x.Message, stage: 1}
				p.inb[x.ID] = r
				p.tags[r.tag] = r
			}
		}
	case *packet.Pubrel:
		if r := p.inb[x.ID]; r != nil && r.stage >= 2 {
			r.stage = 3
		}
	}
}

func (p *peer) callbackSeen(w *World, m *packet.Message, ok bool, early bool) {
	if m.QOS != 2 || !ok {
		return
	}
	r := p.tags[string(m.Payload)]
	if r == nil {
		return
	}
	r.accepted++
	if r.accepted > 1 && !early && !r.tainted {
		w.hit("qos2-callback-twice", fmt.Sprintf("QoS 2 message %s (id %d) was passed to the application %d times within one handshake", wire.ShowMessage(m), r.id, r.accepted))
	}
}

func (p *peer) pubcompArrived(w *World, id packet.ID, early bool) {
	r := p.inb[id]
	if r == nil || r.stage != 3 {
		return
	}
	if r.accepted == 0 {
		w.hit("qos2-completed-without-callback", fmt.Sprintf("PUBCOMP %d reached the broker but the application never accepted message %s", id, r.tag))
	}
	delete(p.inb, id)
}

// ---------------------------------------------------------------- script steps

type script struct {
	w     *World
	r     *gen.Rng
	opts  connOpts
	seq   int
	desc  []string
	alive bool // a client exists that was connected successfully
}

func (s *script) tag(prefix string) []byte {
	s.seq++
	return []byte(fmt.Sprintf("%s%d", prefix, s.seq))
}

func (s *script) note(f string, a ...interface{}) {
	n := fmt.Sprintf(f, a...)
	s.desc = append(s.desc, strings.SplitN(n, " ", 2)[0])
	s.w.note(n)
}

// connect makes a new client and connects it; first = what the broker answers
// (accept accept-sp deny garbage none)
func (s *script) connect(first string, failDial, failReset, failSend bool) bool {
	w := s.w
	if w.c != nil && w.conn != nil && !w.clientEnded() {
		s.closeClient() // one live client per session
	}
	w.NewClient()
	s.note("connect clean=%v early=%v validate=%v ka=%s first=%s faildial=%v failreset=%v failsend=%v", s.opts.clean, s.opts.early, s.opts.validate, s.opts.keepAlive, first, failDial, failReset, failSend)
	w.failDial = failDial
	if failReset && s.opts.clean {
		w.failSessKind, w.failSessN = "reset", 1
	}
	if failSend {
		// the connection exists only after Dial: arm it when it appears
		w.armSendFail = 1
	}
	cl := w.ConnectAsync(s.opts)
	w.finishCall(cl)
	if cl.ret != "fut" {
		return false
	}
	switch first {
	case "accept":
		w.Feed(&packet.Connack{ReturnCode: packet.ConnectionAccepted})
	case "accept-sp":
		w.Feed(&packet.Connack{ReturnCode: packet.ConnectionAccepted, SessionPresent: true})
	case "deny":
		w.Feed(&packet.Connack{ReturnCode: packet.ConnackCode(1 + s.r.Intn(5))})
	case "garbage":
		w.Feed(&packet.Puback{ID: 1})
	case "none":
		w.Drop(false)
	}
	w.settle()
	return strings.HasPrefix(first, "accept") && w.alive()
}

func (s *script) closeClient() {
	s.note("close")
	s.w.finishCall(s.w.CloseAsync())
}

func (s *script) publish(qos packet.QOS) *call {
	s.note("publish qos=%d", qos)
	return s.w.PublishAsync("t/o", s.tag("o"), qos)
}

func (s *script) subscribe() *call {
	subs := []packet.Subscription{{Topic: "t/#", QOS: packet.QOS(s.r.Intn(3))}}
	if s.r.Intn(3) == 0 {
		subs = append(subs, packet.Subscription{Topic: "u", QOS: packet.QOS(s.r.Intn(3))})
	}
	s.note("subscribe n=%d", len(subs))
	return s.w.SubscribeAsync(subs)
}

func (s *script) unsubscribe() *call {
	s.note("unsubscribe")
	return s.w.UnsubscribeAsync([]string{"t/#"})
}

// ackOne lets the broker answer one outstanding request (idx picks which: out of order)
func (s *script) ackOne(idx int, fail bool) bool {
	p := s.w.peer
	if len(p.outs) == 0 {
		return false
	}
	r := p.outs[idx%len(p.outs)]
	switch r.kind {
	case "pub1":
		s.note("broker puback %d", r.id)
		p.remove(r)
		s.w.Feed(&packet.Puback{ID: r.id})
	case "pub2":
		switch r.stage {
		case 0:
			s.note("broker pubrec %d", r.id)
			r.stage = 1
			s.w.Feed(&packet.Pubrec{ID: r.id})
		case 1:
			// waiting for the client's PUBREL: repeat the PUBREC
			s.note("broker pubrec-again %d", r.id)
			s.w.Feed(&packet.Pubrec{ID: r.id})
		default:
			s.note("broker pubcomp %d", r.id)
			p.remove(r)
			s.w.Feed(&packet.Pubcomp{ID: r.id})
		}
	case "sub":
		codes := make([]packet.QOS, r.n)
		for i := range codes {
			codes[i] = packet.QOS(s.r.Intn(3))
		}
		if fail {
			codes[s.r.Intn(len(codes))] = packet.QOSFailure
		}
		s.note("broker suback %d fail=%v", r.id, fail)
		p.remove(r)
		s.w.Feed(&packet.Suback{ID: r.id, ReturnCodes: codes})
	case "unsub":
		s.note("broker unsuback %d", r.id)
		p.remove(r)
		s.w.Feed(&packet.Unsuback{ID: r.id})
	}
	return true
}

func (s *script) spurious() {
	id := packet.ID(1 + s.r.Intn(6))
	var p packet.Generic
	switch s.r.Intn(7) {
	case 0:
		p = &packet.Puback{ID: id}
	case 1:
		p = &packet.Pubrec{ID: id}
	case 2:
		p = &packet.Pubcomp{ID: id}
	case 3:
		p = &packet.Suback{ID: id, ReturnCodes: []packet.QOS{1}}
	case 4:
		p = &packet.Unsuback{ID: id}
	case 5:
		p = &packet.Pingresp{}
	default:
		p = &packet.Connack{}
	}
	s.note("broker spurious %s", wire.ShowPacket(p))
	s.w.Feed(p)
}

func (s *script) inbound(qos packet.QOS) {
	w := s.w
	if qos < 2 {
		p := &packet.Publish{Message: packet.Message{Topic: "t/i", Payload: s.tag("i"), QOS: qos}}
		if qos == 1 {
			p.ID = packet.ID(10 + s.r.Intn(3))
		}
		s.note("broker publish qos=%d id=%d", qos, p.ID)
		w.Feed(p)
		return
	}
	id := packet.ID(1 + s.r.Intn(3))
	if r := w.peer.inb[id]; r != nil {
		if r.stage == 1 {
			s.note("broker publish-dup id=%d", id)
			w.Feed(&packet.Publish{Message: r.msg, ID: id, Dup: true})
		} else {
			s.note("broker pubrel id=%d", id)
			w.Feed(&packet.Pubrel{ID: id})
		}
		return
	}
	s.note("broker publish qos=2 id=%d", id)
	w.Feed(&packet.Publish{Message: packet.Message{Topic: "t/i", Payload: s.tag("q"), QOS: 2}, ID: id})
}

func (s *script) pubrel(unknown bool) {
	w := s.w
	if unknown {
		id := packet.ID(7 + s.r.Intn(2))
		s.note("broker pubrel-unknown id=%d", id)
		w.Feed(&packet.Pubrel{ID: id})
		return
	}
	for id := packet.ID(1); id <= 3; id++ {
		if r := w.peer.inb[id]; r != nil && r.stage >= 2 {
			s.note("broker pubrel id=%d", id)
			w.Feed(&packet.Pubrel{ID: id})
			return
		}
	}
}

// resume: what a broker does after a session was resumed — retransmit its open handshakes
func (s *script) brokerRetransmit() {
	w := s.w
	for id := packet.ID(1); id <= 3; id++ {
		r := w.peer.inb[id]
		if r == nil || !w.alive() {
			continue
		}
		if r.stage == 1 {
			s.note("broker publish-dup id=%d", id)
			w.Feed(&packet.Publish{Message: r.msg, ID: id, Dup: true})
		} else {
			s.note("broker pubrel id=%d", id)
			w.Feed(&packet.Pubrel{ID: id})
		}
		w.settle()
	}
}

func (s *script) reconnect() bool {
	w := s.w
	if s.r.Intn(3) == 0 {
		s.closeClient() // closing a client that died already must not hang either
	} else if w.c != nil && w.conn != nil && !w.clientEnded() {
		s.closeClient()
	}
	if s.r.Intn(4) == 0 {
		s.opts.clean = !s.opts.clean
	}
	first := "accept"
	if !s.opts.clean && s.r.Bool() {
		first = "accept-sp"
	}
	ok := s.connect(first, false, false, false)
	if ok && !s.opts.clean {
		s.brokerRetransmit()
	}
	return ok
}

// clientEnded: die() ran or the client was closed (w.mu not held)
func (w *World) clientEnded() bool {
	w.mu.Lock()
	defer w.mu.Unlock()
	for i := len(w.hist) - 1; i >= 0; i-- {
		e := w.hist[i]
		if e.gen != w.gen {
			break
		}
		if e.kind == "cberr" || (e.kind == "ret" && (e.call.kind == "close" || e.call.kind == "disconnect") && e.call.ret != "notconnected") {
			return true
		}
	}
	return false
}

type weights struct {
	pub, sub, unsub, ack, ackFail, spurious, in01, in2, relUnknown, failSend, failSess, cbFail, drop, disconnect, closeRe, park, parkProc, burst, sleep int
}

func (s *script) random(wt weights, steps int) {
	w := s.w
	tot := wt.pub + wt.sub + wt.unsub + wt.ack + wt.ackFail + wt.spurious + wt.in01 + wt.in2 + wt.relUnknown + wt.failSend + wt.failSess + wt.cbFail + wt.drop + wt.disconnect + wt.closeRe + wt.park + wt.parkProc + wt.burst + wt.sleep
	for i := 0; i < steps; i++ {
		if !w.alive() || w.clientEnded() {
			if s.r.Intn(5) == 0 {
				// API calls on a dead client
				w.finishCall(s.publish(packet.QOS(s.r.Intn(3))))
			}
			if !s.reconnect() {
				continue
			}
		}
		k := s.r.Intn(tot)
		pick := func(n int) bool {
			if k < n {
				k = 1 << 30
				return true
			}
			k -= n
			return false
		}
		switch {
		case pick(wt.pub):
			w.finishCall(s.publish(packet.QOS(s.r.Intn(3))))
		case pick(wt.sub):
			w.finishCall(s.subscribe())
		case pick(wt.unsub):
			w.finishCall(s.unsubscribe())
		case pick(wt.ack):
			idx := 0
			if s.r.Bool() {
				idx = s.r.Intn(4)
			}
			if s.ackOne(idx, false) {
				w.settle()
			}
		case pick(wt.ackFail):
			if s.ackOne(s.r.Intn(4), true) {
				w.settle()
			}
		case pick(wt.spurious):
			s.spurious()
			w.settle()
		case pick(wt.in01):
			s.inbound(packet.QOS(s.r.Intn(2)))
			w.settle()
		case pick(wt.in2):
			s.inbound(2)
			w.settle()
		case pick(wt.relUnknown):
			s.pubrel(true)
			w.settle()
		case pick(wt.failSend):
			n := 1 + s.r.Intn(2)
			s.note("failsend %d", n)
			w.mu.Lock()
			w.conn.failSend = n
			w.mu.Unlock()
		case pick(wt.failSess):
			n := 1 + s.r.Intn(3)
			s.note("failsess %d", n)
			w.mu.Lock()
			w.failSessKind, w.failSessN = "", n
			w.mu.Unlock()
		case pick(wt.cbFail):
			s.note("cbfail")
			w.mu.Lock()
			w.cbFailN = 1
			w.mu.Unlock()
		case pick(wt.drop):
			carrier := s.r.Intn(3) == 0
			s.note("drop carrier=%v", carrier)
			w.Drop(carrier)
			w.settle()
		case pick(wt.disconnect):
			var to time.Duration
			if s.r.Bool() {
				to = 50 * time.Millisecond
			}
			s.note("disconnect timeout=%v", to)
			w.finishCall(w.DisconnectAsync(to))
		case pick(wt.closeRe):
			s.closeClient()
		case pick(wt.park):
			s.parkAPI()
		case pick(wt.parkProc):
			s.parkProc()
		case pick(wt.burst):
			s.burst()
		case pick(wt.sleep):
			d := time.Duration(1+s.r.Intn(4)) * 700 * time.Millisecond
			s.note("sleep %v", d)
			time.Sleep(d)
			w.settle()
			if s.r.Bool() {
				w.Feed(&packet.Pingresp{})
				w.settle()
			}
		}
	}
}

// parkAPI: an exported method is held inside a session operation while the other side acts
func (s *script) parkAPI() {
	w := s.w
	kinds := []string{"nextid", "save/out", "lookup/out"}
	kind := kinds[s.r.Intn(len(kinds))]
	w.Park("a", kind)
	var cl *call
	switch s.r.Intn(4) {
	case 0:
		kind = "nextid"
		w.Park("a", kind)
		cl = s.subscribe()
	case 1:
		kind = "nextid"
		w.Park("a", kind)
		cl = s.unsubscribe()
	default:
		cl = s.publish(packet.QOS(1 + s.r.Intn(2)))
	}
	s.note("park a %s", kind)
	w.settle()
	if !w.Parked() {
		w.Unpark()
		w.finishCall(cl)
		return
	}
	switch s.r.Intn(5) {
	case 0, 1:
		s.note("drop carrier=false (api parked)")
		w.Drop(false)
	case 2:
		if !s.ackOne(s.r.Intn(3), false) {
			s.spurious()
		}
	case 3:
		s.spurious()
	default:
		s.inbound(packet.QOS(s.r.Intn(3)))
	}
	w.settle()
	s.note("release a")
	w.Release()
	w.finishCall(cl)
}

// parkProc: the processor is held inside a session operation while an exported method runs
func (s *script) parkProc() {
	w := s.w
	if len(w.peer.outs) == 0 {
		return
	}
	w.Park("p", "del/out")
	s.note("park p del/out")
	if !s.ackOne(0, false) {
		w.Unpark()
		return
	}
	w.settle()
	if !w.Parked() {
		w.Unpark()
		return
	}
	var cl *call
	switch s.r.Intn(3) {
	case 0:
		cl = s.publish(packet.QOS(s.r.Intn(3)))
	case 1:
		cl = s.subscribe()
	default:
		cl = w.CloseAsync()
		s.note("close (processor parked)")
	}
	w.settle()
	s.note("release p")
	w.Release()
	w.finishCall(cl)
}

// burst: several goroutines call the API at once while the broker keeps talking; one settle
func (s *script) burst() {
	w := s.w
	n := 2 + s.r.Intn(3)
	s.note("burst %d", n)
	var cls []*call
	for i := 0; i < n; i++ {
		switch s.r.Intn(6) {
		case 0:
			cls = append(cls, s.subscribe())
		case 1:
			cls = append(cls, s.unsubscribe())
		case 2:
			s.ackOne(s.r.Intn(3), false)
		case 3:
			s.inbound(packet.QOS(s.r.Intn(3)))
		default:
			cls = append(cls, s.publish(packet.QOS(s.r.Intn(3))))
		}
	}
	switch s.r.Intn(6) {
	case 0:
		s.note("drop carrier=false (burst)")
		w.Drop(false)
	case 1:
		cls = append(cls, w.CloseAsync())
		s.note("close (burst)")
	}
	for _, cl := range cls {
		w.finishCall(cl)
	}
	w.settle()
}

// finish ends a case: the client is closed under the watchdog and everything must be resolved
func (s *script) finish() {
	w := s.w
	if w.c != nil {
		w.Unpark()
		w.Release()
		s.closeClient()
	}
	w.Drop(false)
	time.Sleep(time.Hour)
	w.settle()
	w.mu.Lock()
	mutated := w.checkKept("at the end of the case")
	w.mu.Unlock()
	w.reportKept(mutated)
	w.o.Distinct(strings.Join(s.desc, " "))
}

func newScript(t *testing.T, o *out.W, r *gen.Rng, prop string) *script {
	w := newWorld(t, o, prop)
	return &script{w: w, r: r, opts: connOpts{clean: false, validate: true, keepAlive: "0s", id: "c"}}
}

// ---------------------------------------------------------------- directed scenarios (one per clause / defect)

type scenario struct {
	name string
	prop string // C09, C10 or both ("")
	run  func(s *script)
}

func directed() []scenario {
	return []scenario{
		{"connect-send-fails-then-close", "C09", func(s *script) {
			s.opts.clean = s.r.Bool()
			s.connect("accept", false, false, true)
			s.closeClient()
		}},
		{"connect-reset-fails-then-close", "C09", func(s *script) {
			s.opts.clean = true
			s.connect("accept", false, true, false)
			s.closeClient()
		}},
		{"dial-fails", "C09", func(s *script) {
			s.connect("accept", true, false, false)
			s.closeClient()
			s.w.finishCall(s.publish(1))
		}},
		{"connack-variants", "", func(s *script) {
			for _, f := range []string{"deny", "garbage", "none", "accept-sp"} {
				s.opts.clean = s.r.Bool()
				if s.connect(f, false, false, false) {
					s.w.finishCall(s.publish(1))
				}
				s.w.finishCall(s.publish(0))
				s.closeClient()
			}
		}},
		{"suback-failure", "C09", func(s *script) {
			s.opts.validate = s.r.Intn(4) != 0
			if !s.connect("accept", false, false, false) {
				return
			}
			s.w.finishCall(s.publish(1))
			s.w.finishCall(s.subscribe())
			s.ackOne(1, true)
			s.w.settle()
			s.w.finishCall(s.publish(1))
			for guard1 := 0; guard1 < 64 && s.ackOne(0, false); guard1++ {
				s.w.settle()
			}
			s.note("drop carrier=false")
			s.w.Drop(false)
			s.w.settle()
		}},
		{"session-delete-fails", "C09", func(s *script) {
			if !s.connect("accept", false, false, false) {
				return
			}
			var cl *call
			switch s.r.Intn(3) {
			case 0:
				cl = s.publish(packet.QOS(1 + s.r.Intn(2)))
			case 1:
				cl = s.subscribe()
			default:
				cl = s.unsubscribe()
			}
			s.w.finishCall(cl)
			s.w.finishCall(s.publish(1))
			if s.r.Bool() {
				s.ackOne(0, false) // PUBREC first for QoS 2
				s.w.settle()
			}
			s.note("failsess del/out 1")
			s.w.failSessKind, s.w.failSessN = "del/out", 1
			s.ackOne(0, false)
			s.w.settle()
			s.ackOne(0, false)
			s.w.settle()
			s.note("drop carrier=false")
			s.w.Drop(false)
			s.w.settle()
		}},
		{"api-races-connection-loss", "C09", func(s *script) {
			if !s.connect("accept", false, false, false) {
				return
			}
			s.w.finishCall(s.publish(1))
			kind := []string{"nextid", "lookup/out", "save/out"}[s.r.Intn(3)]
			s.w.Park("a", kind)
			var cl *call
			switch s.r.Intn(3) {
			case 0:
				cl = s.publish(packet.QOS(1 + s.r.Intn(2)))
			case 1:
				s.w.Park("a", "nextid")
				cl = s.subscribe()
			default:
				s.w.Park("a", "nextid")
				cl = s.unsubscribe()
			}
			s.note("park a")
			s.w.settle()
			s.note("drop carrier=false (api parked)")
			s.w.Drop(false)
			s.w.settle()
			s.note("release a")
			s.w.Release()
			s.w.finishCall(cl)
			s.note("sleep 1h")
			time.Sleep(time.Hour)
			s.w.settle()
		}},
		{"resume-outgoing", "C09", func(s *script) {
			if !s.connect("accept", false, false, false) {
				return
			}
			for i, n := 0, 2+s.r.Intn(4); i < n; i++ {
				s.w.finishCall(s.publish(packet.QOS(1 + s.r.Intn(2))))
				if s.r.Intn(3) == 0 {
					s.ackOne(s.r.Intn(3), false)
					s.w.settle()
				}
			}
			s.note("drop carrier=%v", false)
			s.w.Drop(false)
			s.w.settle()
			s.opts.clean = false
			if s.connect("accept-sp", false, false, false) {
				for guard2 := 0; guard2 < 64 && s.ackOne(s.r.Intn(3), false); guard2++ {
					s.w.settle()
				}
			}
		}},
		{"id-skip", "C09", func(s *script) {
			// a PUBREC for an id the client has not used yet makes it record PUBREL k: from then on k is in use, and the
			// request whose NextID returns k has to step over it (Client.nextID) — the short, fully model-checked
			// counterpart of the id-wrap run
			if !s.connect("accept", false, false, false) {
				return
			}
			k := packet.ID(1 + s.r.Intn(4))
			s.note("broker spurious pubrec %d", k)
			s.w.Feed(&packet.Pubrec{ID: k})
			s.w.settle()
			if s.r.Intn(3) == 0 {
				s.note("failsess lookup/out %d", int(k))
				s.w.failSessKind, s.w.failSessN = "lookup/out", int(k) // the lookup that would find PUBREL k fails
			}
			for i := 0; i < int(k)+1 && s.w.alive() && !s.w.clientEnded(); i++ {
				switch s.r.Intn(4) {
				case 0:
					s.w.finishCall(s.subscribe())
				case 1:
					s.w.finishCall(s.unsubscribe())
				default:
					s.w.finishCall(s.publish(packet.QOS(1 + s.r.Intn(2))))
				}
			}
			for guard := 0; guard < 16 && s.r.Intn(4) != 0 && s.ackOne(s.r.Intn(3), false); guard++ {
				s.w.settle()
			}
			s.note("drop carrier=false")
			s.w.Drop(false)
			s.w.settle()
			if s.connect("accept-sp", false, false, false) {
				for guard := 0; guard < 64 && s.ackOne(0, false); guard++ {
					s.w.settle()
				}
			}
		}},
		{"pubrel-unknown-id", "C10", func(s *script) {
			if !s.connect("accept", false, false, false) {
				return
			}
			s.pubrel(true)
			s.w.settle()
			s.inbound(1)
			s.w.settle()
		}},
		{"pubcomp-send-fails-then-resume", "C10", func(s *script) {
			s.opts.early = false
			if !s.connect("accept", false, false, false) {
				return
			}
			s.inbound(2)
			s.w.settle()
			s.note("failsend 1")
			s.w.conn.failSend = 1
			s.pubrel(false)
			s.w.settle()
			if s.connect("accept-sp", false, false, false) {
				s.brokerRetransmit()
			}
		}},
		{"callback-error", "C10", func(s *script) {
			s.opts.early = s.r.Intn(3) == 0
			if !s.connect("accept", false, false, false) {
				return
			}
			q := packet.QOS(s.r.Intn(3))
			if q == 2 && !s.opts.early {
				s.inbound(2)
				s.w.settle()
			}
			s.note("cbfail")
			s.w.cbFailN = 1
			s.inbound(q)
			s.w.settle()
			if s.connect("accept-sp", false, false, false) {
				s.brokerRetransmit()
			}
		}},
		{"qos2-duplicates", "C10", func(s *script) {
			s.opts.early = s.r.Intn(4) == 0
			if !s.connect("accept", false, false, false) {
				return
			}
			for i, n := 0, 4+s.r.Intn(8); i < n; i++ {
				if !s.w.alive() {
					break
				}
				s.inbound(2)
				s.w.settle()
				if s.r.Intn(3) == 0 {
					s.pubrel(false)
					s.w.settle()
				}
			}
		}},
	}
}

// id-wrap (C09): packet ids wrap around.  QoS 1 publish A is never acknowledged; 65535 further QoS 1 publishes are each
// acknowledged at once.  The session's 16-bit id counter is then back at A's id.  MQTT 3.1.1 §2.3.1: a new packet takes a
// packet identifier that is currently unused; the outgoing store and the future store are keyed by id, so a re-used id
// replaces the record of A ("keeps it until the broker's PUBACK" is broken, A is not retransmitted after a reconnect) and
// displaces A's future (cancelled although the connection is fine).  The case has its own, model-independent checks; the
// first `modelRounds` rounds are also submitted to the Lean model (see -wrapmodel), the short `id-skip` scenario
// model-checks the stepping-over itself.  Runs once per check (shard 0).
func c09Wrap(s *script, modelRounds int) {
	w := s.w
	w.light = true
	s.note("scenario id-wrap")
	s.opts = connOpts{clean: false, validate: true, keepAlive: "0s", id: "c"}
	if !s.connect("accept", false, false, false) {
		panic("id-wrap: connect failed")
	}
	s.note("publish qos=1 payload=A (its PUBACK is withheld)")
	ca := w.PublishAsync("t/o", []byte("A"), 1)
	w.finishCall(ca)
	if ca.ret != "fut" {
		panic("id-wrap: publish A: " + ca.ret)
	}
	idA, fa := ca.id, w.futs[ca.fut].f
	w.pollOne(ca.fut, w.futs[ca.fut])
	const total = 65535
	rounds, reusedAt, lastID := 0, 0, packet.ID(0)
	for rounds < total {
		if rounds == modelRounds {
			w.muteModel(fmt.Sprintf("id-wrap: the remaining %d rounds are not submitted to the model (its state keeps every future and every send of a run: the cost per step grows with the length of the run); the monitors of this case go on", total-rounds))
		}
		rounds++
		show := rounds <= 2 || rounds > total-2
		if show {
			s.note("publish qos=1 (round %d)", rounds)
		}
		cl := w.PublishAsync("t/o", []byte("x"), 1)
		w.finishCall(cl)
		if cl.ret != "fut" {
			w.hit("id-wrap-publish-failed", fmt.Sprintf("round %d: Publish returned %q although the connection is up and one packet is stored", rounds, cl.ret))
			break
		}
		lastID = cl.id
		if cl.id == idA && reusedAt == 0 {
			reusedAt = rounds
			w.hit("id-reused-while-unacked", fmt.Sprintf("round %d: the publish was stored and sent under packet id %d, the id of publish A, which is still unacknowledged (MQTT 3.1.1 section 2.3.1: a currently unused packet identifier)", rounds, idA))
		}
		// the broker acknowledges it at once
		if show {
			s.note("broker puback %d", cl.id)
		}
		if r := w.peer.find(cl.id, "pub1"); r != nil && cl.id != idA {
			w.peer.remove(r)
		}
		w.Feed(&packet.Puback{ID: cl.id})
		w.settle()
		if !w.mute {
			w.pollOne(cl.fut, w.futs[cl.fut])
		}
	}
	w.o.Count(fmt.Sprintf("c09wrap/rounds-%d", rounds))
	// A was never acknowledged: it must still be recorded, its future must still be pending
	p, _ := w.inner.LookupPacket(session.Outgoing, idA)
	held := "nothing"
	if pub, ok := p.(*packet.Publish); ok {
		held = fmt.Sprintf("PUBLISH %q", pub.Message.Payload)
	} else if p != nil {
		held = p.Type().String()
	}
	if held != `PUBLISH "A"` {
		w.hit("kept-until-acked", fmt.Sprintf("publish A (id %d) was never acknowledged but after %d further acknowledged publishes the session holds %s under its id", idA, rounds, held))
	}
	stA := "pending"
	switch err := fa.Wait(time.Nanosecond); {
	case err == nil:
		stA = "completed"
	case errors.Is(err, future.ErrCanceled):
		stA = "cancelled"
	}
	if stA != "pending" {
		w.hit("future-"+stA+"-while-connected", fmt.Sprintf("the future of publish A (id %d) is %s although no PUBACK for A arrived and the connection is up", idA, stA))
	}
	// the connection is lost; the session is resumed: A has to be retransmitted, flagged duplicate
	s.note("drop carrier=false")
	w.Drop(false)
	w.settle()
	w.mu.Lock()
	w.recSent, w.sent = true, nil
	w.mu.Unlock()
	resent := 0
	if s.connect("accept-sp", false, false, false) {
		found := false
		w.mu.Lock()
		for _, q := range w.sent {
			if pub, ok := q.(*packet.Publish); ok {
				resent++
				if string(pub.Message.Payload) == "A" && pub.Dup && pub.ID == idA {
					found = true
				}
			}
		}
		w.mu.Unlock()
		if !found {
			w.hit("resend-missing", fmt.Sprintf("publish A (id %d) is unacknowledged but was not retransmitted after the reconnect (%d PUBLISH packets were)", idA, resent))
		}
		for guard := 0; guard < 8 && s.ackOne(0, false); guard++ {
			w.settle()
		}
	}
	w.o.Sample(fmt.Sprintf("id wrap: A held under id %d, %d further publishes each acknowledged at once, the last one under id %d (id of A taken again in round %d; 0 = never); A afterwards: session holds %s, future %s; %d PUBLISH retransmitted after the reconnect; %d rounds model-checked", idA, rounds, lastID, reusedAt, held, stA, resent, min(modelRounds, rounds)))
}

func TestHarness(t *testing.T) {
	if *fOut == "" {
		t.Skip("no -out")
	}
	// one P: the interleaving of the goroutines inside a bubble then depends on the script only,
	// so a seed reproduces the same trace (the shards are separate processes)
	runtime.GOMAXPROCS(1)
	o := out.New(*fOut)
	defer o.Close()
	r := gen.New(*fSeed*1000003 + uint64(*fShard)*7919 + 977)
	prop := *fProp
	if prop != "C09" && prop != "C10" {
		t.Fatalf("unknown property %s", prop)
	}
	reps, rnd := 96, 9600
	if *fTier == "thorough" {
		reps, rnd = 1600, 160000
	}
	reps = reps/(*fNShard) + 1
	rnd = rnd/(*fNShard) + 1
	for _, sc := range directed() {
		if *fOnly != "" && sc.name != *fOnly {
			continue
		}
		if sc.prop != "" && sc.prop != prop && *fOnly == "" {
			continue
		}
		for i := 0; i < reps; i++ {
			sc := sc
			runCase(t, o, "directed "+sc.name, func(t *testing.T) {
				s := newScript(t, o, r, prop)
				s.note("scenario %s", sc.name)
				sc.run(s)
				s.finish()
			})
		}
	}
	if prop == "C09" && ((*fOnly == "" && *fShard == 0) || *fOnly == "id-wrap") {
		mr := *fWrapM
		if mr == 0 {
			mr = 1500
			if *fTier == "thorough" {
				mr = 6000
			}
		} else if mr < 0 {
			mr = 1 << 30
		}
		runCase(t, o, "directed id-wrap", func(t *testing.T) {
			s := newScript(t, o, r, prop)
			c09Wrap(s, mr)
			s.finish()
		})
	}
	if *fOnly != "" {
		return
	}
	for i := 0; i < rnd; i++ {
		runCase(t, o, "random", func(t *testing.T) {
			s := newScript(t, o, r, prop)
			s.opts.clean = r.Intn(3) == 0
			s.opts.early = r.Intn(4) == 0
			s.opts.validate = r.Intn(5) != 0
			// KeepAlive stays 0: under the fake clock of synctest the pinger's timer fires exactly when
			// Tracker.Window() == 0, which its `window < 0` test treats as "not due" and re-arms with a
			// zero timer for ever (an artefact of exact time, not observable with a real clock)
			var wt weights
			if prop == "C09" {
				wt = weights{pub: 12, sub: 4, unsub: 2, ack: 14, ackFail: 1, spurious: 3, in01: 2, in2: 2, relUnknown: 0, failSend: 2, failSess: 2, cbFail: 0, drop: 2, disconnect: 1, closeRe: 1, park: 3, parkProc: 2, burst: 3, sleep: 1}
			} else {
				wt = weights{pub: 2, sub: 1, unsub: 0, ack: 3, ackFail: 0, spurious: 1, in01: 8, in2: 14, relUnknown: 2, failSend: 3, failSess: 0, cbFail: 3, drop: 3, disconnect: 1, closeRe: 1, park: 0, parkProc: 0, burst: 2, sleep: 0}
			}
			first := "accept"
			if r.Intn(8) == 0 {
				first = []string{"deny", "garbage", "none", "accept-sp"}[r.Intn(4)]
			}
			s.connect(first, r.Intn(30) == 0, r.Intn(30) == 0, r.Intn(30) == 0)
			s.random(wt, 15+r.Intn(40))
			s.finish()
			o.Sample(strings.Join(s.desc, " "))
		})
	}
}
