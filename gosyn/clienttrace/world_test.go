// Package clienttrace drives the real client.Client (from the gomqtt tree the module points at)
// inside a testing/synctest bubble against a scripted in-memory broker peer, a logging /
// fault-injecting / parking client.Session and a scripted Callback, and reports every visible
// event in the line protocol of lean/Drv/Client.lean (`cl …`).  Independent monitors
// (monitors_test.go) check every clause of C09 and C10 on the recorded behaviour.
// Built as a test binary because synctest needs *testing.T.
package clienttrace

import (
	"bytes"
	"errors"
	"fmt"
	"io"
	"net"
	"reflect"
	"runtime"
	"strconv"
	"strings"
	"sync"
	"testing"
	"testing/synctest"
	"time"
	"unsafe"

	"github.com/256dpi/gomqtt/client"
	"github.com/256dpi/gomqtt/client/future"
	"github.com/256dpi/gomqtt/packet"
	"github.com/256dpi/gomqtt/session"
	"github.com/256dpi/gomqtt/transport"

	"verifharness/lib/out"
	"verifharness/lib/wire"
)

func goid() int64 {
	var buf [64]byte
	n := runtime.Stack(buf[:], false)
	f := bytes.Fields(buf[:n])
	id, _ := strconv.ParseInt(string(f[1]), 10, 64)
	return id
}

func b2s(b bool) string {
	if b {
		return "1"
	}
	return "0"
}

func clonePacket(p packet.Generic) packet.Generic {
	buf := make([]byte, p.Len())
	if _, err := p.Encode(buf); err != nil {
		return p
	}
	q, _ := p.Type().New()
	if _, err := q.Decode(buf); err != nil {
		return p
	}
	return q
}

// ---------------------------------------------------------------- events

// ev is one entry of the ordered history of a case (everything the monitors look at)
type ev struct {
	kind string // call ret dial nextid save lookup del all reset send closec recv recverr cb cberr drop newclient settle
	th   string // a p k
	gen  int    // client generation (connection number)
	pkt  packet.Generic
	dir  string
	id   packet.ID
	ok   bool
	msg  *packet.Message
	txt  string
	lost bool // send: accepted by the connection but never reaches the peer
	call *call
}

type call struct {
	kind   string // connect pub sub unsub disconnect close
	msg    *packet.Message
	done   chan struct{}
	ret    string
	fut    int // ordinal of the returned future, -1
	id     packet.ID
	gotID  bool
	saved  bool
	sentOK bool
	gen    int
}

type futRec struct {
	f        client.GenericFuture
	kind     string // connect pub sub unsub
	call     *call
	last     string
	lastSP   string
	lastRC   string
	lastCS   string
	gen      int
	reported bool
}

// ---------------------------------------------------------------- fake connection

var errInjected = errors.New("injected failure")
var errDial = errors.New("dial failed")

type fconn struct {
	w         *World
	gen       int
	in        chan packet.Generic
	dead      chan struct{}
	closed    bool // closed by the client
	peerGone  bool // the broker hung up / the carrier broke
	carrier   bool // carrier closed by the transport itself after an error: further sends fail
	failSend  int  // fail the k-th send from now (1-based)
	procG     int64
	receiving bool
	everRecv  bool
}

func (c *fconn) kill() {
	select {
	case <-c.dead:
	default:
		close(c.dead)
	}
}

func (c *fconn) Send(p packet.Generic, async bool) error {
	w := c.w
	w.mu.Lock()
	defer w.mu.Unlock()
	q := clonePacket(p)
	ok, lost := true, false
	if c.failSend > 0 {
		c.failSend--
		if c.failSend == 0 {
			ok = false
			c.carrier = true // BaseConn closes the carrier after a failed write
			c.peerGone = true
			c.kill()
		}
	}
	if ok {
		switch {
		case c.carrier:
			ok = false
		case c.closed:
			// BaseConn after Close: an asynchronous write still lands in the buffer and succeeds
			ok, lost = async, true
		case c.peerGone:
			lost = true
		}
	}
	w.emit("cl send "+w.th()+" "+b2s(ok)+" "+wire.ShowPacket(q), ev{kind: "send", th: w.th(), pkt: q, ok: ok, lost: lost || !ok})
	if w.recSent && ok && !lost {
		w.sent = append(w.sent, q)
	}
	if cc := w.cur; cc != nil && w.th() == "a" && ok {
		cc.sentOK = true
	}
	if !ok {
		return errInjected
	}
	if !lost {
		w.peerGot(q)
	}
	return nil
}

func (c *fconn) Receive() (packet.Generic, error) {
	w := c.w
	w.mu.Lock()
	if c.procG == 0 {
		c.procG = goid()
	}
	c.receiving, c.everRecv = true, true
	w.mu.Unlock()
	fail := func() (packet.Generic, error) {
		w.mu.Lock()
		c.receiving = false
		w.emit("cl recverr", ev{kind: "recverr", th: "p"})
		w.mu.Unlock()
		return nil, io.EOF
	}
	select {
	case <-c.dead:
		return fail()
	default:
	}
	select {
	case p := <-c.in:
		w.mu.Lock()
		c.receiving = false
		w.emit("cl recv "+wire.ShowPacket(p), ev{kind: "recv", th: "p", pkt: p})
		w.mu.Unlock()
		return clonePacket(p), nil
	case <-c.dead:
		return fail()
	}
}

func (c *fconn) Close() error {
	w := c.w
	w.mu.Lock()
	defer w.mu.Unlock()
	ok := !c.closed
	c.closed = true
	c.kill()
	w.emit("cl closec "+w.th()+" "+b2s(ok), ev{kind: "closec", th: w.th(), ok: ok})
	if !ok {
		return errors.New("use of closed connection")
	}
	return nil
}

func (c *fconn) SetReadLimit(int64)             {}
func (c *fconn) SetReadTimeout(time.Duration)   {}
func (c *fconn) SetMaxWriteDelay(time.Duration) {}
func (c *fconn) LocalAddr() net.Addr            { return nil }
func (c *fconn) RemoteAddr() net.Addr           { return nil }

type dialer struct{ w *World }

func (d dialer) Dial(string) (transport.Conn, error) {
	w := d.w
	w.mu.Lock()
	defer w.mu.Unlock()
	if w.failDial {
		w.failDial = false
		w.emit("cl dial 0", ev{kind: "dial", th: "a", ok: false})
		return nil, errDial
	}
	w.conn = &fconn{w: w, gen: w.gen, in: make(chan packet.Generic, 64), dead: make(chan struct{}), failSend: w.armSendFail}
	w.armSendFail = 0
	w.emit("cl dial 1", ev{kind: "dial", th: "a", ok: true})
	return w.conn, nil
}

// ---------------------------------------------------------------- wrapping session

type wsession struct {
	w     *World
	inner *session.MemorySession
}

func dirS(d session.Direction) string {
	if d == session.Incoming {
		return "in"
	}
	return "out"
}

// failNow decides (under w.mu) whether this session operation is made to fail
func (w *World) failNow(kind string) bool {
	if w.failSessN > 0 && (w.failSessKind == "" || w.failSessKind == kind) {
		w.failSessN--
		if w.failSessN == 0 {
			w.failSessKind = ""
			return true
		}
	}
	return false
}

// maybePark holds the calling goroutine before the operation takes effect, if the script asked
func (w *World) maybePark(kind string) {
	w.mu.Lock()
	if w.parkKind == kind && w.parkTh == w.th() {
		ch := make(chan struct{})
		w.parkCh, w.parkKind, w.parkedTh = ch, "", w.parkTh
		w.mu.Unlock()
		<-ch
		return
	}
	w.mu.Unlock()
}

func (s *wsession) NextID() packet.ID {
	s.w.maybePark("nextid")
	w := s.w
	w.mu.Lock()
	defer w.mu.Unlock()
	id := s.inner.NextID()
	if w.cur != nil {
		w.cur.id, w.cur.gotID = id, true
	}
	w.emit(fmt.Sprintf("cl nextid %d", id), ev{kind: "nextid", th: "a", id: id})
	return id
}

func (s *wsession) SavePacket(d session.Direction, p packet.Generic) error {
	s.w.maybePark("save/" + dirS(d))
	w := s.w
	w.mu.Lock()
	defer w.mu.Unlock()
	ok := !w.failNow("save/" + dirS(d))
	if ok {
		_ = s.inner.SavePacket(d, p)
		if w.cur != nil && w.th() == "a" {
			w.cur.saved = true
		}
	}
	id, _ := packet.GetID(p)
	w.emit("cl save "+w.th()+" "+dirS(d)+" "+b2s(ok)+" "+wire.ShowPacket(p), ev{kind: "save", th: w.th(), dir: dirS(d), pkt: clonePacket(p), id: id, ok: ok})
	if !ok {
		return errInjected
	}
	return nil
}

func (s *wsession) LookupPacket(d session.Direction, id packet.ID) (packet.Generic, error) {
	s.w.maybePark("lookup/" + dirS(d))
	w := s.w
	w.mu.Lock()
	defer w.mu.Unlock()
	if (d == session.Outgoing) != (w.th() == "a") {
		// the model attributes lookups by direction: the outgoing store is looked up by the exported methods only
		// (Client.nextID), the incoming store by the processor only (processPubrel); anything else is unknown to it
		w.emit(fmt.Sprintf("cl lookup-by %s %s %d", w.th(), dirS(d), id), ev{kind: "lookup", th: w.th(), dir: dirS(d), id: id, ok: true})
	}
	if w.failNow("lookup/" + dirS(d)) {
		w.emit(fmt.Sprintf("cl lookup %s %d fail", dirS(d), id), ev{kind: "lookup", th: w.th(), dir: dirS(d), id: id, ok: false})
		return nil, errInjected
	}
	p, _ := s.inner.LookupPacket(d, id)
	if p == nil {
		w.emit(fmt.Sprintf("cl lookup %s %d none", dirS(d), id), ev{kind: "lookup", th: w.th(), dir: dirS(d), id: id, ok: true})
	} else {
		w.emit(fmt.Sprintf("cl lookup %s %d %s", dirS(d), id, wire.ShowPacket(p)), ev{kind: "lookup", th: w.th(), dir: dirS(d), id: id, ok: true, pkt: clonePacket(p)})
	}
	return p, nil
}

func (s *wsession) DeletePacket(d session.Direction, id packet.ID) error {
	s.w.maybePark("del/" + dirS(d))
	w := s.w
	w.mu.Lock()
	defer w.mu.Unlock()
	ok := !w.failNow("del/" + dirS(d))
	if ok {
		_ = s.inner.DeletePacket(d, id)
	}
	w.emit(fmt.Sprintf("cl del %s %s %d %s", w.th(), dirS(d), id, b2s(ok)), ev{kind: "del", th: w.th(), dir: dirS(d), id: id, ok: ok})
	if !ok {
		return errInjected
	}
	return nil
}

func (s *wsession) AllPackets(d session.Direction) ([]packet.Generic, error) {
	s.w.maybePark("all")
	w := s.w
	w.mu.Lock()
	defer w.mu.Unlock()
	ok := !w.failNow("all")
	var l []packet.Generic
	if ok {
		l, _ = s.inner.AllPackets(d)
		w.resendWant = nil
		for _, p := range l {
			q := clonePacket(p)
			if pp, isPub := q.(*packet.Publish); isPub {
				pp.Dup = true
			}
			w.resendWant = append(w.resendWant, wire.ShowPacket(q))
		}
		w.resendArmed = true
	}
	w.emit("cl all "+b2s(ok), ev{kind: "all", th: w.th(), ok: ok})
	if !ok {
		return nil, errInjected
	}
	return l, nil
}

func (s *wsession) Reset() error {
	s.w.maybePark("reset")
	w := s.w
	w.mu.Lock()
	defer w.mu.Unlock()
	ok := !w.failNow("reset")
	if ok {
		_ = s.inner.Reset()
	}
	w.emit("cl reset "+w.th()+" "+b2s(ok), ev{kind: "reset", th: w.th(), ok: ok})
	if !ok {
		return errInjected
	}
	return nil
}

// ---------------------------------------------------------------- world

type World struct {
	o     *out.W
	prop  string
	t     *testing.T
	mu    sync.Mutex
	trace []string
	hist  []ev
	notes []string // script steps, for the replay

	inner *session.MemorySession
	ws    *wsession
	gen   int
	c     *client.Client
	conn  *fconn
	cfg   *client.Config

	apiG    map[int64]bool
	apiLock chan struct{}
	cur     *call
	calls   []*call
	futs    []*futRec

	failDial     bool
	armSendFail  int
	orc          *oracle
	failSessN    int
	failSessKind string
	cbFailN      int // make the k-th message callback from now return an error
	parkKind     string
	parkTh       string
	parkCh       chan struct{}
	parkedTh     string

	resendWant  []string
	resendArmed bool

	peer *peer
	hung bool

	// a very long, regular case (the packet-id wrap-around): no event history and none of the general oracles (their
	// bookkeeping is quadratic in the length of a case), the trace keeps its head and its tail only
	light  bool
	mute   bool // the rest of the case is not submitted to the model
	tail   []string
	elided int
	recSent bool // remember what reaches the peer
	sent   []packet.Generic

	kept []*keptMsg // every message handed to the callback: the pointer, and a deep snapshot taken at that moment
}

// keptMsg: an application may keep the *packet.Message it was handed (the callback must not block: queue it, let a worker
// look at it later); what it reads later must still be the message it was given (C10: each message is passed to the
// application exactly once, intact)
type keptMsg struct {
	p        *packet.Message
	snap     packet.Message
	n        int // ordinal of the callback
	reported bool
}

func sameMessage(a, b *packet.Message) bool {
	return a.Topic == b.Topic && bytes.Equal(a.Payload, b.Payload) && a.QOS == b.QOS && a.Retain == b.Retain
}

// checkKept (w.mu held) compares every kept pointer with its snapshot; returns the hits to report (outside the lock)
func (w *World) checkKept(when string) []string {
	var hits []string
	for _, k := range w.kept {
		if !k.reported && !sameMessage(k.p, &k.snap) {
			k.reported = true
			hits = append(hits, fmt.Sprintf("the message handed to the application in callback #%d was %s; %s the same *packet.Message reads %s: the client changed a message it had already delivered", k.n, wire.ShowMessage(&k.snap), when, wire.ShowMessage(k.p)))
		}
	}
	return hits
}

func (w *World) reportKept(hits []string) {
	for _, h := range hits {
		w.hit("callback-message-mutated", h)
	}
}

func newWorld(t *testing.T, o *out.W, prop string) *World {
	w := &World{o: o, prop: prop, t: t, apiG: map[int64]bool{}, apiLock: make(chan struct{}, 1)}
	w.inner = session.NewMemorySession()
	w.ws = &wsession{w: w, inner: w.inner}
	w.peer = newPeer()
	w.orc = newOracle()
	w.op("cl new " + *fFix)
	return w
}

// op writes a line outside any goroutine of the client (script side)
func (w *World) op(line string) {
	w.mu.Lock()
	w.emit(line, ev{kind: "op", txt: line})
	w.mu.Unlock()
}

// emit must be called with w.mu held
func (w *World) emit(line string, e ev) {
	e.gen = w.gen
	if e.call == nil {
		e.call = w.cur
	}
	if e.txt == "" {
		e.txt = line
	}
	if !w.light {
		w.hist = append(w.hist, e)
	}
	if w.hung {
		return // after a recorded hang the client's goroutines are released artificially: not behaviour of the code
	}
	w.traceAdd(line)
	if !w.mute {
		w.o.Op(line, "ok")
	}
}

// traceAdd (w.mu held): the replay of a light case keeps the first 120 and the last 200-400 lines
func (w *World) traceAdd(line string) {
	if !w.light || len(w.trace) < 120 {
		w.trace = append(w.trace, line)
		return
	}
	w.tail = append(w.tail, line)
	if len(w.tail) >= 400 {
		w.elided += 200
		w.tail = append(w.tail[:0], w.tail[200:]...)
	}
}

func (w *World) note(s string) {
	w.mu.Lock()
	if !w.light {
		w.notes = append(w.notes, s)
	}
	w.traceAdd("# " + s)
	w.mu.Unlock()
	w.o.Count("step/" + strings.SplitN(s, " ", 2)[0])
}

// muteModel: from here on the case is not submitted to the Lean model (the monitors go on); said in both files
func (w *World) muteModel(why string) {
	w.mu.Lock()
	if !w.mute {
		w.mute = true
		w.o.Op("# "+why, "# "+why)
		w.traceAdd("# " + why)
	}
	w.mu.Unlock()
}

// th classifies the calling goroutine (w.mu held)
func (w *World) th() string {
	g := goid()
	if w.apiG[g] {
		return "a"
	}
	if w.conn != nil && w.conn.procG == g {
		return "p"
	}
	return "k"
}

func (w *World) hit(kind, detail string) {
	w.mu.Lock()
	rp := append([]string{}, w.trace...)
	if w.light && len(w.tail) > 0 {
		if w.elided > 0 {
			rp = append(rp, fmt.Sprintf("# ... %d lines elided: the round shown above repeated (the next QoS 1 publish takes the next packet id, is stored, sent and acknowledged at once; the first publish stays unacknowledged); the whole sequence is regenerated deterministically by the replay command ...", w.elided))
		}
		rp = append(rp, w.tail...)
	}
	w.mu.Unlock()
	w.o.Monitor(w.prop, kind, detail, rp)
}

// settle waits until every goroutine is durably blocked and tells the model so
func (w *World) settle() {
	synctest.Wait()
	if w.hung {
		return
	}
	w.mu.Lock()
	p := w.parkedTh
	w.mu.Unlock()
	if p != "" {
		w.op("cl settle " + p)
	} else {
		w.op("cl settle")
	}
	if w.light {
		return // the case has its own checks
	}
	w.pollFutures()
	w.monitorQuiescent()
}

// ---- the client under test

func (w *World) NewClient() {
	if w.hung {
		return
	}
	w.gen++
	if w.gen > 1 {
		w.op("cl newclient")
	}
	c := client.New()
	c.Session = w.ws
	c.Callback = w.callback
	w.c = c
	w.conn = nil
	w.mu.Lock()
	w.hist = append(w.hist, ev{kind: "newclient", gen: w.gen})
	w.mu.Unlock()
}

func (w *World) callback(msg *packet.Message, err error) error {
	w.mu.Lock()
	var mutated []string
	defer func() {
		w.mu.Unlock()
		w.reportKept(mutated)
	}()
	if err != nil {
		w.emit("cl cberr "+w.th(), ev{kind: "cberr", th: w.th()})
		return nil
	}
	// the messages delivered earlier must not have changed by the time the next one is delivered; then keep this one
	mutated = w.checkKept(fmt.Sprintf("at callback #%d", len(w.kept)+1))
	w.kept = append(w.kept, &keptMsg{p: msg, n: len(w.kept) + 1,
		snap: packet.Message{Topic: msg.Topic, Payload: append([]byte(nil), msg.Payload...), QOS: msg.QOS, Retain: msg.Retain}})
	ok := true
	if w.cbFailN > 0 {
		w.cbFailN--
		if w.cbFailN == 0 {
			ok = false
		}
	}
	m := msg.Copy()
	w.emit("cl cb "+b2s(ok)+" "+wire.ShowMessage(m), ev{kind: "cb", th: "p", msg: m, ok: ok})
	if !ok {
		return errInjected
	}
	return nil
}

func retKind(err error, okKind string) string {
	switch {
	case err == nil:
		return okKind
	case errors.Is(err, client.ErrClientAlreadyConnecting):
		return "already"
	case errors.Is(err, client.ErrClientNotConnected):
		return "notconnected"
	case errors.Is(err, errDial):
		return "dial"
	case err.Error() == "packet ids exhausted":
		// client.ErrPacketIDsExhausted; matched by its text because trees from before that repair, against which this
		// harness must still build, do not have the variable
		return "exhausted"
	}
	return "err"
}

// start runs an exported method in its own goroutine; the harness-level lock makes the order in
// which concurrent callers enter the client observable (Client.mutex would serialise them anyway)
func (w *World) start(kind, label string, msg *packet.Message, f func() (client.GenericFuture, error), okKind string) *call {
	cl := &call{kind: kind, msg: msg, done: make(chan struct{}), fut: -1}
	if w.hung {
		cl.ret = "hung"
		close(cl.done)
		return cl
	}
	c := w.c
	go func() {
		w.apiLock <- struct{}{}
		w.mu.Lock()
		g := goid()
		w.apiG[g] = true
		cl.gen = w.gen
		w.cur = cl
		w.calls = append(w.calls, cl)
		w.emit(label, ev{kind: "call", th: "a", call: cl, msg: msg})
		w.mu.Unlock()
		fut, err := f()
		w.mu.Lock()
		cl.ret = retKind(err, okKind)
		if err == nil && okKind == "fut" {
			cl.fut = len(w.futs)
			w.futs = append(w.futs, &futRec{f: fut, kind: kind, call: cl, last: "pending", gen: w.gen})
		}
		w.emit("cl ret "+cl.ret, ev{kind: "ret", th: "a", call: cl, txt: cl.ret})
		delete(w.apiG, g)
		w.cur = nil
		w.mu.Unlock()
		_ = c
		<-w.apiLock
		close(cl.done)
	}()
	return cl
}

func (cl *call) isDone() bool {
	select {
	case <-cl.done:
		return true
	default:
		return false
	}
}

type connOpts struct {
	clean, early, validate bool
	keepAlive              string
	id                     string
}

func (w *World) ConnectAsync(o connOpts) *call {
	cfg := client.NewConfigWithClientID("tcp://broker", o.id)
	cfg.Dialer = dialer{w}
	cfg.CleanSession = o.clean
	cfg.KeepAlive = o.keepAlive
	cfg.ValidateSubs = o.validate
	cfg.AlwaysAnnounceOnPublish = o.early
	w.cfg = cfg
	d, _ := time.ParseDuration(o.keepAlive)
	cp := packet.NewConnect()
	cp.ClientID, cp.CleanSession, cp.KeepAlive = o.id, o.clean, uint16(d.Seconds())
	label := fmt.Sprintf("cl connect %s %s %s %s", b2s(o.early), b2s(o.validate), b2s(d > 0), wire.ShowPacket(cp))
	c := w.c
	w.peer.connecting(o.clean)
	return w.start("connect", label, nil, func() (client.GenericFuture, error) {
		f, err := c.Connect(cfg)
		if err != nil {
			return nil, err
		}
		return f, nil
	}, "fut")
}

func (w *World) PublishAsync(topic string, payload []byte, qos packet.QOS) *call {
	m := &packet.Message{Topic: topic, Payload: payload, QOS: qos}
	c := w.c
	return w.start("pub", "cl pub "+wire.ShowMessage(m), m, func() (client.GenericFuture, error) {
		f, err := c.PublishMessage(m)
		if err != nil {
			return nil, err
		}
		return f, nil
	}, "fut")
}

func (w *World) SubscribeAsync(subs []packet.Subscription) *call {
	var l []string
	for _, s := range subs {
		l = append(l, fmt.Sprintf("%s:%d", wire.HxS(s.Topic), s.QOS))
	}
	c := w.c
	return w.start("sub", "cl sub "+strings.Join(l, ","), nil, func() (client.GenericFuture, error) {
		f, err := c.SubscribeMultiple(subs)
		if err != nil {
			return nil, err
		}
		return f, nil
	}, "fut")
}

func (w *World) UnsubscribeAsync(topics []string) *call {
	var l []string
	for _, s := range topics {
		l = append(l, wire.HxS(s))
	}
	c := w.c
	return w.start("unsub", "cl unsub "+strings.Join(l, ","), nil, func() (client.GenericFuture, error) {
		f, err := c.UnsubscribeMultiple(topics)
		if err != nil {
			return nil, err
		}
		return f, nil
	}, "fut")
}

func (w *World) DisconnectAsync(timeout time.Duration) *call {
	c := w.c
	return w.start("disconnect", "cl disconnect "+b2s(timeout > 0), nil, func() (client.GenericFuture, error) {
		if timeout > 0 {
			return nil, c.Disconnect(timeout)
		}
		return nil, c.Disconnect()
	}, "ok")
}

func (w *World) CloseAsync() *call {
	c := w.c
	return w.start("close", "cl close", nil, func() (client.GenericFuture, error) { return nil, c.Close() }, "ok")
}

// finishCall waits (in fake time) for a call; a call that cannot return is a violation
func (w *World) finishCall(cl *call) bool {
	w.settle()
	if cl.isDone() {
		return true
	}
	w.mu.Lock()
	parked := w.parkedTh == "a"
	w.mu.Unlock()
	if parked {
		return false
	}
	// Disconnect(timeout) may wait for futures: let the fake clock run
	time.Sleep(time.Hour)
	w.settle()
	if cl.isDone() {
		return true
	}
	if cl.kind == "close" || cl.kind == "disconnect" {
		w.hit(cl.kind+"-hangs", cl.kind+"() did not return although every goroutine is blocked for good (tomb.Wait on a tomb that never ran a goroutine)")
		w.op("cl hang " + cl.kind)
		w.mu.Lock()
		w.hung = true
		w.mu.Unlock()
		rescueTomb(w.c)
		synctest.Wait()
		w.c = nil
	}
	return cl.isDone()
}

// rescueTomb lets a goroutine that is stuck in tomb.Wait for ever leave, so that the bubble can
// end after the hang was recorded (harness-only; reaches into the unexported tomb)
func rescueTomb(c *client.Client) {
	defer func() { _ = recover() }()
	v := reflect.ValueOf(c).Elem().FieldByName("tomb").FieldByName("dead")
	ch := *(*chan struct{})(unsafe.Pointer(v.UnsafeAddr()))
	close(ch)
}

// ---- park / release

func (w *World) Park(th, kind string) {
	w.mu.Lock()
	w.parkTh, w.parkKind = th, kind
	w.mu.Unlock()
}

func (w *World) Unpark() {
	w.mu.Lock()
	w.parkKind = ""
	w.mu.Unlock()
}

func (w *World) Parked() bool {
	w.mu.Lock()
	defer w.mu.Unlock()
	return w.parkedTh != ""
}

func (w *World) Release() {
	w.mu.Lock()
	ch := w.parkCh
	w.parkCh, w.parkedTh = nil, ""
	w.mu.Unlock()
	if ch != nil {
		close(ch)
	}
}

// ---- broker side

// Feed hands one packet to the client (if somebody can still read it)
func (w *World) Feed(p packet.Generic) {
	if w.conn == nil {
		return
	}
	w.mu.Lock()
	dead := w.conn.closed || w.conn.peerGone
	w.mu.Unlock()
	if dead {
		return
	}
	w.peer.feeding(w, p)
	w.conn.in <- clonePacket(p)
}

// Drop: the broker hangs up (or the carrier breaks: then later writes fail as well)
func (w *World) Drop(carrier bool) {
	if w.conn == nil {
		return
	}
	w.mu.Lock()
	w.conn.peerGone = true
	if carrier {
		w.conn.carrier = true
	}
	w.conn.kill()
	w.hist = append(w.hist, ev{kind: "drop", gen: w.gen})
	w.mu.Unlock()
}

func (w *World) alive() bool {
	if w.conn == nil {
		return false
	}
	w.mu.Lock()
	defer w.mu.Unlock()
	return !w.conn.closed && !w.conn.peerGone
}

// ---- futures

func resString(r interface{}) string {
	switch x := r.(type) {
	case *packet.Connack:
		if x == nil {
			return "nil"
		}
		return fmt.Sprintf("connack %s %d", b2s(x.SessionPresent), x.ReturnCode)
	case *packet.Suback:
		if x == nil {
			return "nil"
		}
		var l []string
		for _, c := range x.ReturnCodes {
			l = append(l, strconv.Itoa(int(c)))
		}
		if len(l) == 0 {
			return "suback -"
		}
		return "suback " + strings.Join(l, ",")
	}
	return "nil"
}

// pollFutures looks at every future handed out so far and calls every accessor (under recover)
func (w *World) pollFutures() {
	for i, fr := range w.futs {
		w.pollOne(i, fr)
	}
}

func (w *World) pollOne(i int, fr *futRec) {
	{
		st := "pending"
		switch err := fr.f.Wait(time.Nanosecond); {
		case err == nil:
			st = "completed"
		case errors.Is(err, future.ErrCanceled):
			st = "cancelled"
		}
		func() {
			defer func() {
				if r := recover(); r != nil {
					w.hit("accessor-panic", fmt.Sprintf("future %d (%s, %s): accessor panicked: %v", i, fr.kind, st, r))
				}
			}()
			if st != "pending" {
				if rf, ok := fr.f.(interface{ Result() interface{} }); ok {
					st += " " + resString(rf.Result())
				} else {
					st += " nil"
				}
			}
			if cf, ok := fr.f.(client.ConnectFuture); ok {
				sp, rc := b2s(cf.SessionPresent()), strconv.Itoa(int(cf.ReturnCode()))
				if sp != fr.lastSP || rc != fr.lastRC {
					fr.lastSP, fr.lastRC = sp, rc
					w.op(fmt.Sprintf("cl acc %d sp %s", i, sp))
					w.op(fmt.Sprintf("cl acc %d rc %s", i, rc))
				}
			}
			if sf, ok := fr.f.(client.SubscribeFuture); ok {
				cs := "nil"
				if l := sf.ReturnCodes(); l != nil {
					var ll []string
					for _, c := range l {
						ll = append(ll, strconv.Itoa(int(c)))
					}
					cs = "-"
					if len(ll) > 0 {
						cs = strings.Join(ll, ",")
					}
				}
				if cs != fr.lastCS {
					fr.lastCS = cs
					w.op(fmt.Sprintf("cl acc %d rcs %s", i, cs))
				}
			}
		}()
		if st != fr.last {
			fr.last = st
			w.op(fmt.Sprintf("cl fut %d %s", i, st))
			if !w.light {
				w.monitorResolved(i, fr, st)
			}
		}
	}
}

func runCase(t *testing.T, o *out.W, desc string, f func(t *testing.T)) {
	o.Case(desc)
	synctest.Test(t, func(t *testing.T) { f(t) })
}
