#!/bin/sh
# setup_cmd: builds everything the checks need from files on disk only (offline).
set -e
cd "$(dirname "$0")"
export GOFLAGS=-mod=mod GOPROXY=off GOSUMDB=off GOTOOLCHAIN=local
(cd lean && lake build)
cp /repo/go.sum go/go.sum
(cd go && go build -tags verif ./...)
mkdir -p evidence replays .bin .work
echo setup-ok
