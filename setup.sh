#!/bin/sh
# setup_cmd: builds everything the checks need from files on disk only (offline).
set -e
cd "$(dirname "$0")"
export GOFLAGS=-mod=mod GOPROXY=off GOSUMDB=off GOTOOLCHAIN=local
(cd lean && lake build)
cp /repo/go.sum go/go.sum
(cd go && go build -tags verif ./...)
cp /repo/go.sum gosyn/go.sum
(cd gosyn && go1.26 vet -tags verif ./... >/dev/null 2>&1 || true; go1.26 test -c -tags verif -o /dev/null ./brokertrace; go1.26 test -c -tags verif -o /dev/null ./conntrace; go1.26 test -c -tags verif -o /dev/null ./servicetrace; go1.26 test -c -tags verif -o /dev/null ./clienttrace)
mkdir -p evidence replays .bin .work
echo setup-ok
